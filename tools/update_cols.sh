#!/bin/bash
# update_cols.sh <seed-id> <prop> [<prop>...] : re-run the given quick checks against one seeded change and
# replace the corresponding lines of /verif/seeded/<seed-id>/detection.txt (used after a check was strengthened).
set -u
ID=$1; shift
cd /verif
d=seeded/$ID
new=$(./tools/run_seeded.sh $ID quick "$@" 2>&1)
for p in C01 C02 C03 C04 C05 C06 C07 C08 C09 C10 C11 C12 C13 C14 C15 C16 C17 C18; do
  l=$(echo "$new" | grep " $p quick " | head -1)
  if [ -n "$l" ]; then echo "$l"; else grep " $p quick " $d/detection.txt | head -1; fi
done > $d/detection.tmp
mv $d/detection.tmp $d/detection.txt
echo "$new" | cut -c1-120
