#!/usr/bin/env python3
"""Maintainer tool (never run by a check): regenerates the `known` entries of known_findings.jsonl
from candidate files written by the engine with VERIF_EMIT_CANDIDATES, keeping only failures inside
the two inexact-degenerate families (L2i, L2s, L2i21), whose root causes N1/N2 are analysed in DESIGN.md 7.
Anything else a check reports is NOT eligible and must be investigated.
usage: mk_known.py cand1.jsonl [cand2.jsonl ...]  -> prints the jsonl lines"""
import json, sys
out = {}
for path in sys.argv[1:]:
    for line in open(path):
        v = json.loads(line)
        fam = v["key"].split(":")[0]
        if v["property"] == "C16" and all("finding N2" in c for c in v["clauses"]):
            what = "N2 one-ulp bump: two float segments meeting in a common end point (right end of one = left end of the other) are split next to it at two different points (DESIGN.md 7): " + "; ".join(v["clauses"])
            out[(v["property"], v["key"])] = {"status": "known", "property": "C16", "key": v["key"], "what": what, "clauses": v["clauses"]}
            continue
        if v["property"] == "C16" and fam == "steepfloat" and all(c == "C16 segments-divided-at-different-points (f32)" for c in v["clauses"]):
            what = ("N2 one-ulp bump in f32 (bump family): the crossing of a steep segment just below its upper left end rounds to the x of that end, "
                    "divide_segment bumps it for the steep segment only, so the two segments are divided at different points (DESIGN.md 7)")
            out[(v["property"], v["key"])] = {"status": "known", "property": "C16", "key": v["key"], "what": what, "clauses": v["clauses"]}
            continue
        if v["property"] == "C10" and fam == "fan":
            what = ("N3 single precision: two edges leaving a shared vertex that are collinear to within 1e-7 relative are treated as overlapping by the f32 "
                    "instantiation (the f32 cross product rounds to zero), so the f32 result differs from the f64 result although every coordinate is exactly "
                    "representable (DESIGN.md 7): " + "; ".join(v["clauses"]))
            out[(v["property"], v["key"])] = {"status": "known", "property": "C10", "key": v["key"], "what": what, "clauses": v["clauses"]}
            continue
        if v["property"] == "C10" and ":2^-40:" in v["key"] and all(c.startswith("C10 scaled-2^-40: f32-result!=f64-result") or c.startswith("C10 scaled-2^-40: f32-panics-where-f64-returns") for c in v["clauses"]):
            what = ("N4 exponent range: with every coordinate multiplied by 2^-40 (exactly representable in f32) the squared cross product of two edges "
                    "underflows to zero in f32, intersection_impl takes crossing or touching edges for parallel ones, and the f32 result differs from the "
                    "f64 result or connect_edges panics with an index out of bounds (DESIGN.md 0.6): " + "; ".join(v["clauses"]))
            out[(v["property"], v["key"])] = {"status": "known", "property": "C10", "key": v["key"], "what": what, "clauses": v["clauses"]}
            continue
        if fam not in ("L2i", "L2s", "L2i21", "L3i"):
            print("NOT ELIGIBLE:", v["key"], v["clauses"], file=sys.stderr)
            continue
        case = v["case"]
        root = "N1/N2 inexact-degenerate input (DESIGN.md 7)"
        what = f"{root}: {fam} A={json.dumps(case.get('A'))} B={json.dumps(case.get('B'))}: " + "; ".join(v["clauses"])
        out[(v["property"], v["key"])] = {"status": "known", "property": v["property"], "key": v["key"], "what": what, "clauses": v["clauses"]}
for k in sorted(out):
    print(json.dumps(out[k]))
