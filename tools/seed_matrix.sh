#!/bin/bash
# seed_matrix.sh [tier] : run every seeded change against every registered check and record the outcome
# in /verif/seeded/<id>/detection.txt (one line per property: CAUGHT / MISSED / MACHINERY).
TIER=${1:-quick}
cd /verif
PROPS=$(python3 -c "import json; print(' '.join(c['property_id'] for c in json.load(open('MANIFEST.json'))['checks']))")
for d in seeded/*/; do
    id=$(basename $d)
    [ -f $d/patch.diff ] || continue
    if [ -f $d/detection.txt ] && [ "${FORCE:-0}" != "1" ]; then echo "skip $id (has detection.txt)"; continue; fi
    ./tools/run_seeded.sh $id $TIER $PROPS > $d/detection.tmp 2>&1 && mv $d/detection.tmp $d/detection.txt
    grep -c CAUGHT $d/detection.txt | sed "s/^/$id caught by /"
done
