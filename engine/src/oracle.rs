//! Shared oracles: face witnesses of an arrangement, structural validity of a result, provenance.
use crate::complex::*;
use crate::geom::*;
use std::collections::HashMap;

// ------------------------------------------------------------------------------------------------
// 4.1 face witnesses for arbitrary (non-complex) inputs
// ------------------------------------------------------------------------------------------------

/// approximate parameters on s where the other segment o meets it
fn split_params(s: Seg, o: Seg, out: &mut Vec<f64>) {
    let (a, b) = s;
    let (c, d) = o;
    let (rx, ry) = (b.0 - a.0, b.1 - a.1);
    let (sx, sy) = (d.0 - c.0, d.1 - c.1);
    let den = rx * sy - ry * sx;
    let l2 = rx * rx + ry * ry;
    if orient(a, b, c) == 0.0 && orient(a, b, d) == 0.0 {
        for q in [c, d] {
            let t = ((q.0 - a.0) * rx + (q.1 - a.1) * ry) / l2;
            if t > 0.0 && t < 1.0 {
                out.push(t);
            }
        }
        return;
    }
    if den == 0.0 {
        return;
    }
    let t = ((c.0 - a.0) * sy - (c.1 - a.1) * sx) / den;
    let u = ((c.0 - a.0) * ry - (c.1 - a.1) * rx) / den;
    if t > 0.0 && t < 1.0 && (-1e-12..=1.0 + 1e-12).contains(&u) {
        out.push(t);
    }
}

pub struct Witnesses {
    pub pts: Vec<P>,
    pub sides: usize,
    pub skipped: usize,
}

/// One witness next to each side of every sub-segment of the arrangement of `edges`, at least
/// max(tol, d/2) away from every edge, where d is its distance from the sub-segment it belongs to,
/// and such that the open probe from the sub-segment's midpoint to the witness crosses no edge. Every
/// face of the arrangement is adjacent to some sub-segment, hence receives a witness unless it is
/// thinner than the tolerance (counted in `skipped`).
pub fn witnesses(edges: &[Seg], tol: f64) -> Witnesses {
    let mut pts = vec![];
    let mut sides = 0;
    let mut skipped = 0;
    for (i, &s) in edges.iter().enumerate() {
        let mut ts = vec![0.0, 1.0];
        for (j, &o) in edges.iter().enumerate() {
            if i != j {
                split_params(s, o, &mut ts);
            }
        }
        ts.sort_by(|a, b| a.partial_cmp(b).unwrap());
        let (a, b) = s;
        let (dx, dy) = (b.0 - a.0, b.1 - a.1);
        let len = (dx * dx + dy * dy).sqrt();
        let (nx, ny) = (-dy / len, dx / len);
        for k in 0..ts.len() - 1 {
            let (t0, t1) = (ts[k], ts[k + 1]);
            if (t1 - t0) * len <= 4.0 * tol || t1 <= t0 {
                continue;
            }
            let tm = 0.5 * (t0 + t1);
            let m = (a.0 + tm * dx, a.1 + tm * dy);
            let sub = (t1 - t0) * len;
            for sgn in [1.0, -1.0] {
                sides += 1;
                let mut found = false;
                for f in [0.25, 0.05, 1e-2, 1e-3, 1e-4, 1e-5, 1e-6] {
                    let d = f * sub;
                    if d < 8.0 * tol {
                        break;
                    }
                    let w = (m.0 + sgn * d * nx, m.1 + sgn * d * ny);
                    let need = (d * 0.5).max(tol);
                    let crosses = |e: Seg| {
                        let (c, d) = e;
                        if orient(a, b, c) == 0.0 && orient(a, b, d) == 0.0 {
                            // collinear with the carrier of the sub-segment: the probe leaves the line at m
                            return false;
                        }
                        let (o1, o2) = (orient(m, w, c), orient(m, w, d));
                        if o1 == 0.0 && o2 == 0.0 {
                            // collinear with the probe: counts only if the spans overlap
                            return collinear_overlap((m, w), e)
                                || on_segment(c, (m, w))
                                || on_segment(d, (m, w));
                        }
                        o1 * o2 <= 0.0 && orient(c, d, m) * orient(c, d, w) <= 0.0
                    };
                    if edges.iter().all(|&e| dist_pt_seg(w, e) >= need)
                        && !edges.iter().any(|&e| crosses(e))
                    {
                        pts.push(w);
                        found = true;
                        break;
                    }
                }
                if !found {
                    skipped += 1;
                }
            }
        }
    }
    Witnesses {
        pts,
        sides,
        skipped,
    }
}

// ------------------------------------------------------------------------------------------------
// 4.2 structural oracle
// ------------------------------------------------------------------------------------------------

/// Ring-level checks common to all families: closed, >= 3 distinct vertices, non-zero area,
/// no repeated consecutive vertex. `ccw_required` is false for results handed back by the bbox shortcut.
pub fn ring_checks(res: &MP, ccw_required: bool, out: &mut Vec<&'static str>) {
    for r in mp_rings(res) {
        let p = &r.0;
        if p.len() < 4 {
            out.push("C04 ring-with-fewer-than-3-vertices");
            continue;
        }
        if p.first() != p.last() {
            out.push("C04 ring-not-closed");
        }
        let mut d: Vec<(u64, u64)> = p.iter().map(|c| (c.x.to_bits(), c.y.to_bits())).collect();
        d.sort();
        d.dedup();
        if d.len() < 3 {
            out.push("C04 ring-with-fewer-than-3-distinct-vertices");
        }
        let a2 = ring_area2(r);
        if a2 == 0.0 {
            out.push("C04 zero-area-ring");
        }
        if ccw_required && a2 < 0.0 {
            out.push("C04 clockwise-ring");
        }
        for i in 0..p.len() - 1 {
            if p[i] == p[i + 1] {
                out.push("C04 repeated-vertex-in-result");
            }
        }
    }
}

/// Structural validity of a result over a complex (exact): nesting, disjointness, no shared or
/// repeated boundary cell, polygon-wise reading == even-odd reading.
pub fn complex_structural(cx: &Complex, res: &MP, out: &mut Vec<&'static str>) {
    let mut cells: HashMap<(V, V), u32> = HashMap::new();
    let mut off = false;
    for (a, b) in mp_edges(res) {
        match cx.decompose(a, b) {
            Some(cs) => {
                for c in cs {
                    *cells.entry(c).or_default() += 1;
                }
            }
            None => off = true,
        }
    }
    if off {
        out.push("C02 edge-not-on-complex");
    }
    if cells.values().any(|&c| c > 1) {
        out.push("C02 shared-or-repeated-boundary-segment");
    }
    let mut covered = 0u32;
    for p in &res.0 {
        let ext = cx.ring_mask(p.exterior());
        if ext == 0 {
            out.push("C02 empty-exterior");
        }
        let mut holes = 0u32;
        for h in p.interiors() {
            let hm = cx.ring_mask(h);
            if hm == 0 {
                out.push("C02 empty-hole");
            }
            if hm & !ext != 0 {
                out.push("C02 hole-outside-exterior");
            }
            if hm & holes != 0 {
                out.push("C02 holes-overlap");
            }
            holes |= hm;
        }
        let body = ext & !holes;
        if body & covered != 0 {
            out.push("C02 polygons-overlap");
        }
        covered |= body;
    }
    let (_, ov, eo) = cx.mask_of(res);
    if ov {
        out.push("C02 polygons-overlap");
    }
    if eo {
        out.push("C02 polygonwise!=evenodd");
    }
}

/// Structural validity of a result on a float family: exact pairwise edge tests and witness based nesting.
pub fn float_structural(res: &MP, wits: &[P], out: &mut Vec<&'static str>) {
    let edges = mp_edges(res);
    for i in 0..edges.len() {
        for j in i + 1..edges.len() {
            if proper_cross(edges[i], edges[j]) {
                out.push("C02 result-edges-cross");
            }
            if collinear_overlap(edges[i], edges[j]) {
                out.push("C02 shared-or-repeated-boundary-segment");
            }
        }
    }
    for &w in wits {
        let c = polywise(res, w);
        if c > 1 {
            out.push("C02 polygons-overlap");
        }
        if (c >= 1) != evenodd(res, w) {
            out.push("C02 polygonwise!=evenodd");
        }
    }
    for p in &res.0 {
        for (k, h) in p.interiors().iter().enumerate() {
            let mut nonempty = false;
            for &w in wits {
                if ring_parity(h, w) {
                    nonempty = true;
                    if !ring_parity(p.exterior(), w) {
                        out.push("C02 hole-outside-exterior");
                    }
                    for (l, g) in p.interiors().iter().enumerate() {
                        if l != k && ring_parity(g, w) {
                            out.push("C02 holes-overlap");
                        }
                    }
                }
            }
            if !nonempty {
                // no witness inside: either the hole is degenerate (judged exactly), or it is a face thinner
                // than the tolerance, which the property allows to skip (no judgement)
                let mut d: Vec<(u64, u64)> = h.0.iter().map(|c| (c.x.to_bits(), c.y.to_bits())).collect();
                d.sort();
                d.dedup();
                if d.len() < 3 || ring_area2(h) == 0.0 {
                    out.push("C02 empty-hole");
                }
            }
        }
    }
}

// ------------------------------------------------------------------------------------------------
// 4.2 provenance (C04)
// ------------------------------------------------------------------------------------------------

fn line_intersection(s: Seg, t: Seg) -> Option<P> {
    // integer inputs: exact rational in i128, rounded once
    let is_int =
        |p: P| p.0.fract() == 0.0 && p.1.fract() == 0.0 && p.0.abs() < 1e9 && p.1.abs() < 1e9;
    if is_int(s.0) && is_int(s.1) && is_int(t.0) && is_int(t.1) {
        let i = |x: f64| x as i128;
        let (x1, y1, x2, y2) = (i(s.0 .0), i(s.0 .1), i(s.1 .0), i(s.1 .1));
        let (x3, y3, x4, y4) = (i(t.0 .0), i(t.0 .1), i(t.1 .0), i(t.1 .1));
        let den = (x1 - x2) * (y3 - y4) - (y1 - y2) * (x3 - x4);
        if den == 0 {
            return None;
        }
        let nx = (x1 * y2 - y1 * x2) * (x3 - x4) - (x1 - x2) * (x3 * y4 - y3 * x4);
        let ny = (x1 * y2 - y1 * x2) * (y3 - y4) - (y1 - y2) * (x3 * y4 - y3 * x4);
        return Some((nx as f64 / den as f64, ny as f64 / den as f64));
    }
    let (rx, ry) = (s.1 .0 - s.0 .0, s.1 .1 - s.0 .1);
    let (sx, sy) = (t.1 .0 - t.0 .0, t.1 .1 - t.0 .1);
    let den = rx * sy - ry * sx;
    if den == 0.0 {
        return None;
    }
    let u = ((t.0 .0 - s.0 .0) * sy - (t.0 .1 - s.0 .1) * sx) / den;
    Some((s.0 .0 + u * rx, s.0 .1 + u * ry))
}

/// Provenance of a result: every edge on an input edge, every vertex an input vertex or an
/// intersection of two input edges. tol == 0: exact predicates ("lies exactly on"), otherwise distances.
pub fn provenance(a: &MP, b: &MP, res: &MP, tol: f64, out: &mut Vec<&'static str>) {
    let mut input = mp_edges(a);
    input.extend(mp_edges(b));
    let inverts: std::collections::HashSet<(u64, u64)> = mp_vertices(a)
        .into_iter()
        .chain(mp_vertices(b))
        .map(|p| (p.0.to_bits(), p.1.to_bits()))
        .collect();
    let near = |p: P, e: Seg| {
        if tol == 0.0 {
            on_segment(p, e)
        } else {
            dist_pt_seg(p, e) <= tol
        }
    };
    for (p, q) in mp_edges(res) {
        if !input.iter().any(|&e| near(p, e) && near(q, e)) {
            out.push("C04 edge-not-on-an-input-edge");
        }
    }
    for v in mp_vertices(res) {
        if inverts.contains(&(v.0.to_bits(), v.1.to_bits())) {
            continue;
        }
        let cand: Vec<Seg> = input.iter().cloned().filter(|&e| near(v, e)).collect();
        let mut ok = false;
        'o: for i in 0..cand.len() {
            for j in i + 1..cand.len() {
                if collinear(cand[i], cand[j]) {
                    continue;
                }
                if tol == 0.0 {
                    ok = true; // lies exactly on two non-collinear input edges: it is their intersection
                    break 'o;
                }
                if let Some(x) = line_intersection(cand[i], cand[j]) {
                    if ((x.0 - v.0).powi(2) + (x.1 - v.1).powi(2)).sqrt() <= tol {
                        ok = true;
                        break 'o;
                    }
                }
            }
        }
        if !ok {
            out.push("C04 vertex-neither-input-vertex-nor-intersection");
        }
    }
}

/// recompute from the inputs whether the bounding boxes are disjoint (the shortcut predicate),
/// independently of the implementation; an operand without edges has the empty (inverted infinite) box
pub fn boxes_disjoint(a: &MP, b: &MP) -> bool {
    let bx = |mp: &MP| {
        let (mut x0, mut y0, mut x1, mut y1) = (
            f64::INFINITY,
            f64::INFINITY,
            f64::NEG_INFINITY,
            f64::NEG_INFINITY,
        );
        for (p, q) in mp_edges(mp) {
            for v in [p, q] {
                x0 = x0.min(v.0);
                y0 = y0.min(v.1);
                x1 = x1.max(v.0);
                y1 = y1.max(v.1);
            }
        }
        (x0, y0, x1, y1)
    };
    let (s, c) = (bx(a), bx(b));
    s.0 > c.2 || c.0 > s.2 || s.1 > c.3 || c.1 > s.3
}
