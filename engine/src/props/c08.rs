//! C08: results commute with exact similarity transforms (2^k scaling bit-identically, integer
//! translations on exact families ring for ring, the 8 axis symmetries as regions).
use super::base::*;
use crate::complex::*;
use crate::geom::*;
use crate::nf::*;
use crate::oracle::*;
use crate::run::*;
use crate::stats::*;
use rayon::prelude::*;
use serde_json::{json, Value};

pub const SCALES: [i32; 7] = [-200, -64, -1, 1, 10, 64, 200];
pub const TRANSLATIONS: [(f64, f64); 5] = [
    (7.0, 0.0),
    (-7.0, 0.0),
    (0.0, 7.0),
    (0.0, -7.0),
    (1048576.0, -1048576.0),
];

fn scale_mp(mp: &MP, k: i32) -> MP {
    let s = 2f64.powi(k);
    map_mp(mp, &|p| (p.0 * s, p.1 * s))
}

/// all transform checks on one pair of operands; `wit`/`truth`: witnesses with the expected membership per op
fn transform_pair(
    pa: &MP,
    pb: &MP,
    wit: &[P],
    expect: &dyn Fn(usize, geo_booleanop::boolean::Operation) -> bool,
    exact_family: bool,
    loc: &mut Local,
) -> Vec<String> {
    let mut cl = vec![];
    for op in OPS {
        let base = match call(pa, pb, op).res {
            Ok(r) => r,
            Err(_) => {
                loc.add("panics", 1);
                continue;
            }
        };
        loc.transitions += 1;
        for k in SCALES {
            loc.transitions += 1;
            let ok = match call(&scale_mp(pa, k), &scale_mp(pb, k), op).res {
                Ok(r) => mp_bits_eq(&r, &scale_mp(&base, k)),
                Err(_) => false,
            };
            if !ok {
                cl.push(format!(
                    "C08 scaling-by-2^{k}-not-bit-identical {}",
                    op_name(op)
                ));
            }
        }
        if exact_family {
            for (dx, dy) in TRANSLATIONS {
                loc.transitions += 1;
                let tr = |p: P| (p.0 + dx, p.1 + dy);
                let ok = match call(&map_mp(pa, &tr), &map_mp(pb, &tr), op).res {
                    Ok(r) => ring_set(&r, Nf::D) == ring_set(&map_mp(&base, &tr), Nf::D),
                    Err(_) => false,
                };
                if !ok {
                    cl.push(format!(
                        "C08 translation-by-({dx},{dy})-changes-rings {}",
                        op_name(op)
                    ));
                }
            }
        }
        for s in 1..8 {
            loc.transitions += 1;
            let f = |p: P| symmetry(s, p);
            let ok = match call(&map_mp(pa, &f), &map_mp(pb, &f), op).res {
                Ok(r) => wit
                    .iter()
                    .enumerate()
                    .all(|(i, &w)| (polywise(&r, f(w)) >= 1) == expect(i, op)),
                Err(_) => false,
            };
            if !ok {
                cl.push(format!(
                    "C08 symmetry-{}-changes-region {}",
                    SYM_NAMES[s],
                    op_name(op)
                ));
            }
        }
    }
    cl
}

fn complex_case(fam: &Family, enc: Enc, a: u32, b: u32, loc: &mut Local) -> Vec<String> {
    let m = |op| model(a, b, op);
    transform_pair(
        &fam.enc(enc)[a as usize],
        &fam.enc(enc)[b as usize],
        &fam.cx.wit,
        &|i, op| (m(op) >> i) & 1 == 1,
        true,
        loc,
    )
}

fn table_case(
    t: &crate::tables::Table,
    spec: &TableSpec,
    ia: usize,
    ib: usize,
    loc: &mut Local,
) -> Vec<String> {
    let (a, b) = (&t.ops[ia], &t.ops[ib]);
    let mut edges = a.edges.clone();
    edges.extend(b.edges.iter().cloned());
    let wit = witnesses(&edges, spec.tol(Ft::F64));
    let truth: Vec<(bool, bool)> = wit
        .pts
        .iter()
        .map(|&w| (evenodd(&a.mp, w), evenodd(&b.mp, w)))
        .collect();
    transform_pair(
        &a.mp,
        &b.mp,
        &wit.pts,
        &|i, op| model_bool(truth[i].0, truth[i].1, op),
        false,
        loc,
    )
}

pub fn replay(case: &Value, verbose: bool) -> Vec<String> {
    let mut loc = Local::default();
    if case["kind"] == "table" {
        let spec = TableSpec::from_json(&case["table"]);
        let t = spec.build();
        return table_case(
            &t,
            &spec,
            case["a"].as_u64().unwrap() as usize,
            case["b"].as_u64().unwrap() as usize,
            &mut loc,
        );
    }
    let fam = family_cached(case["family"].as_str().unwrap());
    let enc = enc_from(case["enc"].as_str().unwrap_or("M"));
    let (a, b) = (
        case["a"].as_u64().unwrap() as u32,
        case["b"].as_u64().unwrap() as u32,
    );
    if verbose {
        println!(
            "A = {}\nB = {}",
            hex(&fam.enc(enc)[a as usize]),
            hex(&fam.enc(enc)[b as usize])
        );
    }
    complex_case(&fam, enc, a, b, &mut loc)
}

pub fn run(tier: &str) -> i32 {
    let st = Stats::new("C08", tier);
    silence_panics();
    let thorough = tier == "thorough";
    let fams: Vec<(&str, Enc)> = if thorough {
        vec![
            ("G22", Enc::M),
            ("G32", Enc::M),
            ("G23", Enc::M),
            ("G33", Enc::M),
            ("G33", Enc::U),
            ("T22", Enc::M),
            ("T22", Enc::U),
            ("O21", Enc::M),
            ("O12", Enc::M),
            ("G43", Enc::M),
            ("T32", Enc::M),
        ]
    } else {
        vec![
            ("G22", Enc::M),
            ("G32", Enc::M),
            ("G23", Enc::M),
            ("G33", Enc::M),
            ("T22", Enc::M),
            ("O21", Enc::M),
            ("O12", Enc::M),
        ]
    };
    for (name, enc) in fams {
        let fam = Family::new(name);
        let n = fam.cx.noperands();
        // quick tier: the three 256-operand families and G33 are covered on every k-th subject operand
        let step: u32 = if thorough {
            if n > 512 {
                16
            } else {
                1
            }
        } else if n >= 512 {
            8
        } else if n >= 256 {
            2
        } else {
            1
        };
        st.family(&format!(
            "{name}/{}: {} scalings, {} translations, 7 symmetries on {} ordered pairs{}",
            enc.name(),
            SCALES.len(),
            TRANSLATIONS.len(),
            (n as u64).div_ceil(step as u64) * n as u64,
            if step > 1 {
                format!(" (subject restricted to every {step}th operand)")
            } else {
                String::new()
            }
        ));
        (0..n).into_par_iter().for_each(|a| {
            if a % step != 0 {
                return;
            }
            let mut loc = Local::default();
            for b in 0..n {
                loc.states += 1;
                if fam.nontrivial(a, b) {
                    loc.nontrivial += 1;
                }
                for c in complex_case(&fam, enc, a, b, &mut loc) {
                    let key = format!("{name}:{}:{a}:{b}:{}", enc.name(), c);
                    loc.violation(&c, key, json!({"prop": "C08", "kind": "complex", "family": name, "enc": enc.name(), "a": a, "b": b}));
                }
            }
            st.merge(&loc);
        });
    }
    for spec in if thorough {
        vec![
            p_spec(9, st.seed, 1.0, false),
            p_spec(16, st.seed, 1.0, false),
            p_spec(9, st.seed + 1, 1.1 * 1048576.0, false),
        ]
    } else {
        vec![p_spec(9, st.seed, 1.0, false)]
    } {
        let t = spec.build();
        let n = if thorough && spec.n == 9 {
            t.ops.len()
        } else {
            t.n_tri
        };
        let cnt = std::sync::atomic::AtomicU64::new(0);
        (0..n).into_par_iter().for_each(|ia| {
            let mut loc = Local::default();
            for ib in 0..n {
                let (a, b) = (&t.ops[ia], &t.ops[ib]);
                use crate::tables::Kind;
                if !t.pair_allowed(a, b) || !(a.kind == Kind::Tri || b.kind == Kind::Tri) {
                    continue;
                }
                loc.states += 1;
                if crate::tables::edge_sets_interact(&a.edges, &b.edges) {
                    loc.nontrivial += 1;
                }
                for c in table_case(&t, &spec, ia, ib, &mut loc) {
                    loc.violation(&c, format!("{}:{ia}:{ib}:{c}", spec.name), json!({"prop": "C08", "kind": "table", "table": spec.json(), "a": ia, "b": ib}));
                }
            }
            cnt.fetch_add(loc.states, std::sync::atomic::Ordering::Relaxed);
            st.merge(&loc);
        });
        st.family(&format!("{}: {} scalings (bit-identity under inexact arithmetic) and 7 symmetries on {} ordered pairs", spec.name, SCALES.len(), cnt.into_inner()));
    }
    let f = Family::new("T22");
    st.sample(json!({"family": "T22", "a_mask": 77, "b_mask": 178, "A": hex(&f.m[77]), "B": hex(&f.m[178]), "transform": "scale by 2^-200", "A_scaled": hex(&scale_mp(&f.m[77], -200))}));
    finish(
        &st,
        "state = (ordered operand pair, transform) with transforms 2^k (k in -200,-64,-1,1,10,64,200), 5 integer translations (exact families), 7 non-identity axis symmetries; transition = one call on the transformed operands compared with the transformed canonical result (bit-identical / same ring set / same region at transformed witnesses); non-trivial = operands share a boundary point",
        &["scalings are chosen so that no product of four coordinates under- or overflows"],
        true,
        Some(&|c| replay(c, false)),
    )
}
