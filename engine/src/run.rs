//! Calling the implementation under observation: unwinds are caught, the sweep event counter and
//! the shortcut flags of the hook module are read back, a budget turns a runaway sweep into a panic.
use crate::geom::*;
use geo_booleanop::boolean::{BooleanOp, Operation};
use geo_booleanop::verif_hooks as hooks;
use geo_types::{Coord, LineString, MultiPolygon, Polygon};
use std::panic::{catch_unwind, AssertUnwindSafe};

pub const OPS: [Operation; 4] = [
    Operation::Intersection,
    Operation::Union,
    Operation::Difference,
    Operation::Xor,
];

pub fn op_name(op: Operation) -> &'static str {
    match op {
        Operation::Intersection => "intersection",
        Operation::Union => "union",
        Operation::Difference => "difference",
        Operation::Xor => "xor",
    }
}
pub fn op_from(s: &str) -> Operation {
    match s {
        "intersection" => Operation::Intersection,
        "union" => Operation::Union,
        "difference" => Operation::Difference,
        "xor" => Operation::Xor,
        _ => panic!("bad op {s}"),
    }
}

#[derive(Clone, Copy, PartialEq, Eq, Debug)]
pub enum Ft {
    F64,
    F32,
}
impl Ft {
    pub fn name(self) -> &'static str {
        match self {
            Ft::F64 => "f64",
            Ft::F32 => "f32",
        }
    }
}

/// which of the four trait implementations is used (only applicable if the side has one polygon)
#[derive(Clone, Copy, PartialEq, Eq, Debug)]
pub enum Pairing {
    MM,
    PM,
    MP,
    PP,
}
pub const PAIRINGS: [Pairing; 4] = [Pairing::MM, Pairing::PM, Pairing::MP, Pairing::PP];

pub fn flavour() -> &'static str {
    if cfg!(debug_assertions) {
        "debug-assertions"
    } else {
        "release"
    }
}

pub struct CallOut {
    pub res: Result<MP, String>,
    pub events: u64,
    pub early: bool,
    pub trivial: bool,
    /// how often each instrumented code path of the library was taken by this call
    pub paths: [u64; hooks::NPATHS],
}

impl CallOut {
    pub fn count_paths(&self, loc: &mut crate::stats::Local) {
        for (i, &n) in self.paths.iter().enumerate() {
            if n > 0 {
                loc.add(PATH_LABELS[i], n);
            }
        }
    }
}

pub const PATH_LABELS: [&str; hooks::NPATHS] = [
    "path: intersection found with the upper neighbour on insertion",
    "path: intersection found with the lower neighbour on insertion",
    "path: intersection found between the new neighbours after a removal",
    "path: overlap sharing the left end found (fields recomputed)",
    "path: overlap not sharing the left end found",
    "path: divide_segment bumped the division point by one ulp (corner case 1)",
    "path: divide_segment swapped left/right of the split-off piece (corner case 2)",
    "path: sweep line did not contain the segment to be removed",
    "path: contour closed early at its initial point",
    "path: contour attached as a hole",
    "path: contour started without a lower result edge",
    "path: collapsed input edge skipped",
];

pub fn n_edges(a: &MP, b: &MP) -> u64 {
    (mp_edges(a).len() + mp_edges(b).len()) as u64
}

/// the bound the property C03 states: a fixed quadratic polynomial in the number of input edges
pub fn event_bound(n: u64) -> u64 {
    4 * n * n + 4 * n + 16
}

pub fn to32(mp: &MP) -> MultiPolygon<f32> {
    MultiPolygon(
        mp.0.iter()
            .map(|p| {
                let cv = |r: &LineString<f64>| {
                    LineString(
                        r.0.iter()
                            .map(|c| Coord {
                                x: c.x as f32,
                                y: c.y as f32,
                            })
                            .collect(),
                    )
                };
                Polygon::new(cv(p.exterior()), p.interiors().iter().map(cv).collect())
            })
            .collect(),
    )
}
pub fn to64(mp: &MultiPolygon<f32>) -> MP {
    MultiPolygon(
        mp.0.iter()
            .map(|p| {
                let cv = |r: &LineString<f32>| {
                    LineString(
                        r.0.iter()
                            .map(|c| Coord {
                                x: c.x as f64,
                                y: c.y as f64,
                            })
                            .collect(),
                    )
                };
                Polygon::new(cv(p.exterior()), p.interiors().iter().map(cv).collect())
            })
            .collect(),
    )
}

fn dispatch<F: geo_booleanop::boolean::Float>(
    a: &MultiPolygon<F>,
    b: &MultiPolygon<F>,
    op: Operation,
    pairing: Pairing,
) -> MultiPolygon<F> {
    match pairing {
        Pairing::MM => a.boolean(b, op),
        Pairing::PM => a.0[0].boolean(b, op),
        Pairing::MP => a.boolean(&b.0[0], op),
        Pairing::PP => a.0[0].boolean(&b.0[0], op),
    }
}

pub fn pairing_applicable(a: &MP, b: &MP, p: Pairing) -> bool {
    match p {
        Pairing::MM => true,
        Pairing::PM => a.0.len() == 1,
        Pairing::MP => b.0.len() == 1,
        Pairing::PP => a.0.len() == 1 && b.0.len() == 1,
    }
}

pub fn panic_msg(e: Box<dyn std::any::Any + Send>) -> String {
    e.downcast_ref::<String>()
        .cloned()
        .or_else(|| e.downcast_ref::<&str>().map(|s| s.to_string()))
        .unwrap_or_else(|| "<non-string panic payload>".into())
}

/// One observed call of the implementation. Operands are checked to be bit-identical afterwards (C12a)
/// by the caller where wanted; here they are only borrowed immutably.
pub fn call_full(a: &MP, b: &MP, op: Operation, ft: Ft, pairing: Pairing) -> CallOut {
    let n = n_edges(a, b);
    hooks::begin_call();
    hooks::set_budget(8 * event_bound(n));
    let _watch = crate::watch::enter_call(a, b, op, ft);
    let res = match ft {
        Ft::F64 => catch_unwind(AssertUnwindSafe(|| dispatch(a, b, op, pairing))),
        Ft::F32 => {
            let (a32, b32) = (to32(a), to32(b));
            catch_unwind(AssertUnwindSafe(|| dispatch(&a32, &b32, op, pairing))).map(|r| to64(&r))
        }
    };
    CallOut {
        res: res.map_err(panic_msg),
        events: hooks::events(),
        early: hooks::early_break_taken(),
        trivial: hooks::trivial_taken(),
        paths: hooks::paths(),
    }
}

pub fn call(a: &MP, b: &MP, op: Operation) -> CallOut {
    call_full(a, b, op, Ft::F64, Pairing::MM)
}

/// Panics raised inside the library under test (location under /repo/) are expected events that the checks
/// catch and judge; they are not printed. A panic anywhere else is a bug of the engine and stays loud.
pub fn silence_panics() {
    std::panic::set_hook(Box::new(|info| {
        let in_subject = info.location().map(|l| l.file().starts_with("/repo/")).unwrap_or(false);
        if !in_subject {
            eprintln!("MACHINERY: engine panic: {info}");
        }
    }));
}

/// The executable used for child processes: a private copy of this binary, taken once, so that a rebuild
/// of the engine while a check is running cannot swap the binary under a check that re-executes itself.
pub fn child_exe() -> std::path::PathBuf {
    static EXE: std::sync::OnceLock<std::path::PathBuf> = std::sync::OnceLock::new();
    EXE.get_or_init(|| {
        let me = std::env::current_exe().expect("current_exe");
        if std::env::var("VERIF_CHILD").is_ok() {
            return me; // a child re-executing itself keeps using the copy it was started from
        }
        let copy = std::path::PathBuf::from(format!("/tmp/verif-engine-child-{}", std::process::id()));
        match std::fs::copy(&me, &copy) {
            Ok(_) => {
                std::env::set_var("VERIF_CHILD", "1");
                copy
            }
            Err(_) => me,
        }
    })
    .clone()
}

pub fn cleanup_child_exe() {
    if std::env::var("VERIF_CHILD").is_ok() {
        let _ = std::fs::remove_file(format!("/tmp/verif-engine-child-{}", std::process::id()));
    }
}
