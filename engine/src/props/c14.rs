//! C14: the sweep's classification of every sub-segment matches the geometry.
use super::base::*;
use super::c13::{operands_of_case, sweep_families, sweep_pairs};
use super::sweepx::*;
use crate::complex::*;
use crate::geom::*;
use crate::run::*;
use crate::stats::*;
use geo_booleanop::boolean::sweep_event::{EdgeType, ResultTransition};
use geo_booleanop::boolean::Operation;
use serde_json::{json, Value};

/// `ctx`: Some((family, a, b)) on complexes (membership by face bitmask), None on tables (exact even-odd)
pub fn check(
    pa: &MP,
    pb: &MP,
    op: Operation,
    tol: f64,
    ctx: Option<(&Family, u32, u32)>,
    loc: &mut Local,
) -> Vec<String> {
    let mut cl: Vec<String> = vec![];
    let mut add = |s: String| {
        let c = format!("C14 {s} {}", op_name(op));
        if !cl.contains(&c) {
            cl.push(c);
        }
    };
    let sw = match run_sweep(pa, pb, op) {
        Ok(s) => s,
        Err(_) => {
            loc.add("panics", 1);
            return cl;
        }
    };
    loc.transitions += 1;
    let lefts = sw.processed_lefts();
    let input: Vec<Seg> = if ctx.is_none() {
        let mut v = mp_edges(pa);
        v.extend(mp_edges(pb));
        v
    } else {
        vec![]
    };
    let member = |subject: bool, w: P| -> bool {
        match ctx {
            Some((fam, a, b)) => fam.cx.in_mask(if subject { a } else { b }, w),
            None => evenodd(if subject { pa } else { pb }, w),
        }
    };
    for e in &lefts {
        let o = match e.get_other_event() {
            Some(o) => o,
            None => continue,
        };
        let (p, q) = (ept(e), ept(&o));
        if p == q {
            continue; // C13's subject
        }
        let m = ((p.0 + q.0) / 2.0, (p.1 + q.1) / 2.0);
        let (dx, dy) = (q.0 - p.0, q.1 - p.1);
        let l = (dx * dx + dy * dy).sqrt();
        // upward normal; for a vertical sub-segment "above" is its left side (the sweep's convention)
        let (mut nx, mut ny) = (-dy / l, dx / l);
        if dx == 0.0 {
            if nx > 0.0 {
                nx = -nx;
                ny = -ny;
            }
        } else if ny < 0.0 {
            nx = -nx;
            ny = -ny;
        }
        let eps = if ctx.is_some() {
            0.01
        } else {
            (0.01 * l).max(8.0 * tol)
        };
        let above = (m.0 + eps * nx, m.1 + eps * ny);
        let below = (m.0 - eps * nx, m.1 - eps * ny);
        if ctx.is_none() {
            // side points must be clear of every input edge, and the probes must not cross an edge off the carrier
            let clear = |w: P| {
                input.iter().all(|&s| {
                    if dist_pt_seg(p, s) <= tol && dist_pt_seg(q, s) <= tol {
                        return true; // the input edge carrying this sub-segment (or a coincident one)
                    }
                    dist_pt_seg(w, s) > tol.max(eps * 0.5)
                        && !proper_cross((m, w), s)
                        && !on_segment(s.0, (m, w))
                        && !on_segment(s.1, (m, w))
                })
            };
            if !clear(above) || !clear(below) {
                loc.add("sub_segments_skipped_side_point_not_clear", 1);
                continue;
            }
        }
        loc.add("sub_segments_judged", 1);
        let (ob, oa) = (member(e.is_subject, below), member(e.is_subject, above));
        let (tb, ta) = (member(!e.is_subject, below), member(!e.is_subject, above));
        let d = || {
            format!(
                "[{:?}->{:?} {}]",
                p,
                q,
                if e.is_subject { "A" } else { "B" }
            )
        };
        if ob == oa {
            add("sub-segment-not-on-the-boundary-of-its-own-operand".into());
            let _ = d;
            continue;
        }
        if e.is_in_out() != (ob && !oa) {
            add(format!("in_out-wrong ({:?})", e.get_edge_type()));
        }
        let twin = tb != ta;
        let (ab, aa, bb, ba) = if e.is_subject {
            (ob, oa, tb, ta)
        } else {
            (tb, ta, ob, oa)
        };
        let (rb, ra) = (model_bool(ab, bb, op), model_bool(aa, ba, op));
        if !twin {
            if e.is_other_in_out() == tb {
                add("other_in_out-wrong".into());
            }
            if e.get_edge_type() != EdgeType::Normal {
                add("edge-type-of-a-non-coincident-sub-segment-not-Normal".into());
            }
            if e.is_in_result() != (rb != ra) {
                add("in_result-wrong".into());
            } else if e.is_in_result()
                && (e.get_result_transition() == ResultTransition::OutIn) != ra
            {
                add("result-transition-wrong".into());
            }
        } else {
            let tw: Vec<_> = lefts
                .iter()
                .filter(|t| t.is_subject != e.is_subject && t.point == e.point && eopt(t) == q)
                .collect();
            if tw.len() != 1 {
                add(format!("coincident-sub-segment-has-{}-twins", tw.len()));
                continue;
            }
            let t = tw[0];
            let cnt = e.is_in_result() as u32 + t.is_in_result() as u32;
            if cnt != (rb != ra) as u32 {
                add(format!("coincident-twins-in-result-count-{cnt}"));
            } else if e.is_in_result()
                && (e.get_result_transition() == ResultTransition::OutIn) != ra
            {
                add("coincident-twin-result-transition-wrong".into());
            }
        }
        // Nearest lower result edge, judged only where the geometry leaves no choice: this sub-segment has
        // no coincident twin, and the nearest non-vertical sub-segment below its left end (an edge
        // leaving the same point clockwise of it, else the edge passing strictly below that point) is
        // unambiguous. If that edge (or its coincident twin) is a result boundary, it is what must be
        // recorded. Where the nearest edge is not a result boundary the recorded edge is whatever a
        // predecessor handed down, and only the clause further below applies.
        if !twin {
            let ttol = if ctx.is_some() { 1e-9 } else { 8.0 * tol };
            let mut ambiguous = false;
            let mut group: Vec<&&E> = vec![];
            let fan: Vec<&&E> = lefts
                .iter()
                .filter(|s| s.point == e.point && eopt(s).0 > p.0 && eopt(s) != q)
                .collect();
            let mut fan_below: Vec<&&E> = vec![];
            for s in fan {
                let b = eopt(s);
                let o = orient(p, q, b);
                let lb = ((b.0 - p.0).powi(2) + (b.1 - p.1).powi(2)).sqrt();
                if o.abs() / (l * lb) <= ttol && ctx.is_none() {
                    ambiguous = true;
                } else if o == 0.0 {
                    ambiguous = true; // collinear with different length: C13's subject
                } else if o < 0.0 {
                    fan_below.push(s);
                }
            }
            if !fan_below.is_empty() {
                let mut best = fan_below[0];
                for s in &fan_below[1..] {
                    if orient(p, eopt(best), eopt(s)) > 0.0 {
                        best = s;
                    }
                }
                for s in &fan_below {
                    let o = orient(p, eopt(best), eopt(s));
                    if o == 0.0 {
                        if eopt(s) != eopt(best) {
                            ambiguous = true;
                        }
                        group.push(s);
                    } else if ctx.is_none() {
                        let dd = |a: P, b: P| ((a.0 - b.0).powi(2) + (a.1 - b.1).powi(2)).sqrt();
                        let lb = dd(p, eopt(best)) * dd(p, eopt(s));
                        if o.abs() / lb <= ttol {
                            ambiguous = true;
                        }
                    }
                }
            } else {
                let yat = |s: &E| {
                    let (a, b) = (ept(s), eopt(s));
                    a.1 + (p.0 - a.0) * (b.1 - a.1) / (b.0 - a.0)
                };
                let mut cands: Vec<&&E> = vec![];
                for s in lefts.iter() {
                    let (a, b) = (ept(s), eopt(s));
                    if !(a.0 <= p.0 && p.0 < b.0) || a == p {
                        continue;
                    }
                    if dist_pt_seg(p, (a, b)) <= ttol {
                        ambiguous = true; // an edge through the left end that was not subdivided there
                        continue;
                    }
                    if orient(a, b, p) > 0.0 {
                        cands.push(s);
                    }
                }
                if !cands.is_empty() {
                    let ymax = cands.iter().map(|s| yat(s)).fold(f64::NEG_INFINITY, f64::max);
                    let near: Vec<&&E> = cands
                        .iter()
                        .filter(|s| ymax - yat(s) <= ttol)
                        .cloned()
                        .collect();
                    let a0 = ept(near[0]);
                    if near.iter().any(|s| ept(s) != a0) {
                        ambiguous = true;
                    } else {
                        // same start: a fan directly below; its uppermost edge is the nearest
                        let mut best = near[0];
                        for s in &near[1..] {
                            if orient(a0, eopt(best), eopt(s)) > 0.0 {
                                best = s;
                            }
                        }
                        for s in &near {
                            if orient(a0, eopt(best), eopt(s)) == 0.0 {
                                if eopt(s) != eopt(best) {
                                    ambiguous = true;
                                }
                                group.push(s);
                            }
                        }
                        if near.len() > group.len() && a0.0 != p.0 {
                            ambiguous = true; // distinct edges at one height without a common vertex there
                        }
                    }
                }
            }
            if ambiguous {
                loc.add("nearest_lower_edge_ambiguous_skipped", 1);
            } else if !group.is_empty() && group.iter().any(|s| s.is_in_result()) {
                loc.add("nearest_lower_result_edge_judged", 1);
                let (ga, gb) = (ept(group[0]), eopt(group[0]));
                let ok = match e.get_prev_in_result() {
                    Some(pr) => {
                        let (ra, rb) = (ept(&pr), eopt(&pr));
                        // the recorded event may be the first part of an edge that was split at this
                        // very point after being recorded; its continuation is then the nearest edge
                        let first_part = rb == p && ga == p && {
                            let o = orient(ra, rb, gb);
                            let dd = |a: P, b: P| ((a.0 - b.0).powi(2) + (a.1 - b.1).powi(2)).sqrt();
                            o == 0.0 || (ctx.is_none() && o.abs() / (dd(ra, rb) * dd(rb, gb)) <= ttol)
                        };
                        pr.is_in_result() && ((ra == ga && rb == gb) || first_part)
                    }
                    None => false,
                };
                if !ok {
                    if std::env::var("VERIF_DEBUG").is_ok() {
                        println!(
                            "DEBUG nearest: e={:?}->{:?} nearest={:?}->{:?} recorded={:?}",
                            p,
                            q,
                            ga,
                            gb,
                            e.get_prev_in_result().map(|r| (ept(&r), eopt(&r)))
                        );
                    }
                    add("prev_in_result-not-the-nearest-result-edge-below".into());
                }
            }
        }
        if let Some(pr) = e.get_prev_in_result() {
            if let Some(po) = pr.get_other_event() {
                if !pr.is_in_result() {
                    add("prev_in_result-not-in-result".into());
                }
                let (pp, pq) = (ept(&pr), ept(&po));
                let (s1, s2) = (orient(pp, pq, p), orient(pp, pq, q));
                // The recorded edge was the nearest lower result edge when a predecessor of this
                // sub-segment entered the sweep line; it may have ended since (the implementation hands
                // the pointer down a chain of predecessors). What the property states is judged: it is a
                // non-vertical result edge that started earlier and, where it still spans the x of this
                // sub-segment's left end, passes strictly below that point or through it from below.
                let spans = pp.0 <= p.0 && p.0 <= pq.0;
                if !spans {
                    loc.add("prev_in_result_ended_before_this_sub_segment", 1);
                }
                let below_ok = pp.0 != pq.0
                    && pp.0 <= p.0
                    && (!spans || (s1 >= 0.0 && (s1 > 0.0 || s2 >= 0.0)));
                if !below_ok {
                    if std::env::var("VERIF_DEBUG").is_ok() {
                        println!("DEBUG prev: e={:?}->{:?} prev={:?}->{:?} s1={s1} s2={s2} prev_left={}", p, q, pp, pq, pr.is_left());
                    }
                    add("prev_in_result-not-a-result-edge-below".into());
                }
            }
        }
    }
    cl
}

pub fn replay(case: &Value, verbose: bool) -> Vec<String> {
    let mut loc = Local::default();
    let (pa, pb, tol) = operands_of_case(case, verbose);
    let fam = if case["kind"] == "table" {
        None
    } else {
        Some(family_cached(case["family"].as_str().unwrap()))
    };
    let ctx = fam.as_ref().map(|f| {
        (
            &**f,
            case["a"].as_u64().unwrap() as u32,
            case["b"].as_u64().unwrap() as u32,
        )
    });
    let mut cl = vec![];
    for op in OPS {
        cl.extend(check(&pa, &pb, op, tol, ctx, &mut loc));
    }
    cl
}

pub fn run(tier: &str) -> i32 {
    let st = Stats::new("C14", tier);
    silence_panics();
    let thorough = tier == "thorough";
    let tables = if thorough {
        vec![
            p_spec(9, st.seed, 1.0, false),
            p_spec(16, st.seed, 1.0, false),
        ]
    } else {
        vec![p_spec(9, st.seed, 1.0, false)]
    };
    sweep_pairs(
        &st,
        "C14",
        &sweep_families(thorough),
        &tables,
        &|pa, pb, op, tol, ctx, loc| check(pa, pb, op, tol, ctx, loc),
    );
    let f = Family::new("G33");
    st.sample(json!({"family": "G33", "a_mask": 495, "b_mask": 16, "A": hex(&f.m[495]), "B": hex(&f.m[16]), "note": "ring with hole vs the centre square: every edge of B coincides with an edge of A", "ops": "all four"}));
    finish(
        &st,
        "state = ordered operand pair; transition = fill_queue + subdivide of the real implementation for one operation; for every processed sub-segment two side points (midpoint +- 0.01 along the upward normal; for a vertical sub-segment 'above' is the left side) give own/other membership below and above (face bitmask on complexes, exact even-odd on the table); in_out, other_in_out, edge type, in_result and the result transition (for coincident twins: exactly one carries the boundary, with the combined direction) and prev_in_result are compared with what these memberships imply; where the nearest non-vertical sub-segment below the left end is unique and is a result boundary (or its coincident twin is), the recorded prev_in_result must be that edge or the first part of the same edge ending at this point; non-trivial = operands share a boundary point",
        &["on the float table a sub-segment whose side points are not clear of every other edge is skipped and counted"],
        true,
        Some(&|c| replay(c, false)),
    )
}
