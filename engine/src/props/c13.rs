//! C13: after the sweep the edges form a proper planar subdivision of the inputs.
use super::base::*;
use super::sweepx::*;
use crate::complex::*;
use crate::geom::*;
use crate::run::*;
use crate::stats::*;
use geo_booleanop::boolean::Operation;
use rayon::prelude::*;
use serde_json::{json, Value};
use std::rc::Rc;

fn lex_less(a: P, b: P) -> bool {
    a.0 < b.0 || (a.0 == b.0 && a.1 < b.1)
}

/// all clauses of C13 on one operand pair and one operation; tol == 0: exact family
pub fn check(pa: &MP, pb: &MP, op: Operation, tol: f64, loc: &mut Local) -> Vec<String> {
    let mut cl: Vec<String> = vec![];
    let mut add = |s: &str| {
        let c = format!("C13 {s} {}", op_name(op));
        if !cl.contains(&c) {
            cl.push(c);
        }
    };
    let (ea, eb) = (mp_edges(pa), mp_edges(pb));
    let mut fill_findings: Vec<&'static str> = vec![];
    let sw = match run_sweep_with(pa, pb, op, &mut |pre, sb, cb| {
        let mut add = |s: &'static str| fill_findings.push(s);
        if pre.len() != 2 * (ea.len() + eb.len()) {
            add("fill_queue: not exactly two events per non-degenerate input edge");
        }
        let mut got: Vec<(P, P, bool)> = vec![];
        for e in pre.iter() {
            let o = match e.get_other_event() {
                Some(o) => o,
                None => {
                    add("fill_queue: event without partner");
                    continue;
                }
            };
            if !o
                .get_other_event()
                .map(|x| Rc::ptr_eq(&x, e))
                .unwrap_or(false)
            {
                add("fill_queue: pair not mutually linked");
            }
            if e.is_left() == o.is_left() {
                add("fill_queue: not exactly one left flag per pair");
            }
            if e.is_left() {
                if !lex_less(ept(e), ept(&o)) {
                    add("fill_queue: left event not first in sweep order");
                }
                got.push((ept(e), ept(&o), e.is_subject));
            }
        }
        let mut want: Vec<(P, P, bool)> = vec![];
        for (edges, subj) in [(&ea, true), (&eb, false)] {
            for &(p, q) in edges.iter() {
                want.push(if lex_less(p, q) {
                    (p, q, subj)
                } else {
                    (q, p, subj)
                });
            }
        }
        let srt = |v: &mut Vec<(P, P, bool)>| v.sort_by(|a, b| a.partial_cmp(b).unwrap());
        srt(&mut got);
        srt(&mut want);
        if got != want {
            add("fill_queue: event pairs are not the input edges");
        }
        for (edges, bx) in [(&ea, sb), (&eb, cb)] {
            let (mut x0, mut y0, mut x1, mut y1) = (
                f64::INFINITY,
                f64::INFINITY,
                f64::NEG_INFINITY,
                f64::NEG_INFINITY,
            );
            for &(p, q) in edges.iter() {
                for v in [p, q] {
                    x0 = x0.min(v.0);
                    y0 = y0.min(v.1);
                    x1 = x1.max(v.0);
                    y1 = y1.max(v.1);
                }
            }
            if (bx.min.x, bx.min.y, bx.max.x, bx.max.y) != (x0, y0, x1, y1) {
                add("fill_queue: bounding box not exact");
            }
        }
    }) {
        Ok(s) => s,
        Err(_) => {
            loc.add("panics", 1);
            return cl;
        }
    };
    for f in fill_findings {
        add(f);
    }
    loc.transitions += 1;
    if sw.early {
        loc.add("early_break_taken", 1);
    }
    // ---- after subdivision
    let lefts = sw.processed_lefts();
    loc.add("sub_segments", lefts.len() as u64);
    for e in &lefts {
        let o = match e.get_other_event() {
            Some(o) => o,
            None => {
                add("sub-segment without right event");
                continue;
            }
        };
        if !o
            .get_other_event()
            .map(|x| Rc::ptr_eq(&x, e))
            .unwrap_or(false)
            || o.is_left()
        {
            add("sub-segment not a mutually linked left/right pair");
        }
        if ept(e) == ept(&o) {
            add("zero-length sub-segment");
        } else if !lex_less(ept(e), ept(&o)) {
            add("left event not first in sweep order");
        }
    }
    let segs: Vec<(Seg, bool)> = lefts
        .iter()
        .map(|e| ((ept(e), eopt(e)), e.is_subject))
        .collect();
    loc.add(
        "sub_segment_pairs",
        (segs.len() * segs.len().saturating_sub(1) / 2) as u64,
    );
    for i in 0..segs.len() {
        for j in i + 1..segs.len() {
            let ((s, ss), (t, ts)) = (segs[i], segs[j]);
            if s.0 == s.1 || t.0 == t.1 {
                continue;
            }
            if s.0 .0.max(t.0 .0) > s.1 .0.min(t.1 .0) {
                continue; // x-extents disjoint
            }
            let coincide = s == t;
            if coincide {
                if ss == ts {
                    add("coinciding sub-segments of the same operand");
                }
                continue;
            }
            if proper_cross(s, t) {
                add("sub-segments cross");
            } else if in_interior(t.0, s)
                || in_interior(t.1, s)
                || in_interior(s.0, t)
                || in_interior(s.1, t)
            {
                add("sub-segments touch in an interior point or overlap partially");
            }
        }
    }
    // ---- chain coverage of every input edge (sweep ran to completion)
    if op == Operation::Union || op == Operation::Xor {
        let near = |p: P, e: Seg| {
            if tol == 0.0 {
                on_segment(p, e)
            } else {
                dist_pt_seg(p, e) <= tol
            }
        };
        for (edges, subj) in [(&ea, true), (&eb, false)] {
            for &(p0, p1) in edges.iter() {
                let (l, r) = if lex_less(p0, p1) { (p0, p1) } else { (p1, p0) };
                let mut subs: Vec<Seg> = segs
                    .iter()
                    .filter(|(s, sj)| *sj == subj && near(s.0, (l, r)) && near(s.1, (l, r)))
                    .map(|x| x.0)
                    .collect();
                subs.sort_by(|x, y| x.partial_cmp(y).unwrap());
                subs.dedup();
                let mut cur = l;
                let mut ok = true;
                for s in &subs {
                    if s.0 != cur {
                        ok = false;
                        break;
                    }
                    cur = s.1;
                }
                if !ok || cur != r {
                    add("sub-segments of an input edge do not chain from its start to its end");
                }
            }
        }
    }
    cl
}

pub fn replay(case: &Value, verbose: bool) -> Vec<String> {
    let mut loc = Local::default();
    if case["kind"] == "degen" {
        let fam = family_cached(case["family"].as_str().unwrap());
        let (a, b) = (case["a"].as_u64().unwrap() as usize, case["b"].as_u64().unwrap() as usize);
        let (kind, side) = (case["variant"].as_str().unwrap(), case["side"].as_u64().unwrap() as u8);
        let va = if side & 1 != 0 { super::c03::degen_variant(&fam.m[a], kind) } else { fam.m[a].clone() };
        let vb = if side & 2 != 0 { super::c03::degen_variant(&fam.m[b], kind) } else { fam.m[b].clone() };
        if verbose {
            println!("A = {}\nB = {}", hex(&va), hex(&vb));
        }
        let mut cl = vec![];
        for op in OPS {
            cl.extend(check(&va, &vb, op, 0.0, &mut loc));
        }
        return cl;
    }
    let (pa, pb, tol) = operands_of_case(case, verbose);
    let mut cl = vec![];
    for op in OPS {
        cl.extend(check(&pa, &pb, op, tol, &mut loc));
    }
    cl
}

/// shared by C13 C14 C15: operands and tolerance of a recorded case
pub fn operands_of_case(case: &Value, verbose: bool) -> (MP, MP, f64) {
    let (pa, pb, tol) = if case["kind"] == "table" {
        let spec = TableSpec::from_json(&case["table"]);
        let t = spec.build();
        (
            t.ops[case["a"].as_u64().unwrap() as usize].mp.clone(),
            t.ops[case["b"].as_u64().unwrap() as usize].mp.clone(),
            spec.tol(Ft::F64),
        )
    } else {
        let fam = family_cached(case["family"].as_str().unwrap());
        let enc = enc_from(case["enc"].as_str().unwrap_or("M"));
        (
            fam.enc(enc)[case["a"].as_u64().unwrap() as usize].clone(),
            fam.enc(enc)[case["b"].as_u64().unwrap() as usize].clone(),
            0.0,
        )
    };
    if verbose {
        println!("A = {}\nB = {}", hex(&pa), hex(&pb));
    }
    (pa, pb, tol)
}

/// shared driver: every ordered pair of a complex family / of the triangles of a table, all four operations
pub fn sweep_pairs(
    st: &Stats,
    prop: &str,
    fams: &[(&str, Enc, u32)],
    tables: &[TableSpec],
    f: &(dyn Fn(&MP, &MP, Operation, f64, Option<(&Family, u32, u32)>, &mut Local) -> Vec<String>
          + Sync),
) {
    for &(name, enc, step) in fams {
        let fam = Family::new(name);
        let n = fam.cx.noperands();
        st.family(&format!(
            "{name}/{}: {} ordered pairs x 4 operations{}",
            enc.name(),
            (n as u64).div_ceil(step as u64) * n as u64,
            if step > 1 {
                format!(" (subject restricted to every {step}th operand)")
            } else {
                String::new()
            }
        ));
        (0..n).into_par_iter().for_each(|a| {
            if a % step != 0 {
                return;
            }
            let mut loc = Local::default();
            for b in 0..n {
                loc.states += 1;
                if fam.nontrivial(a, b) {
                    loc.nontrivial += 1;
                }
                for op in OPS {
                    for c in f(&fam.enc(enc)[a as usize], &fam.enc(enc)[b as usize], op, 0.0, Some((&fam, a, b)), &mut loc) {
                        loc.violation(&c, format!("{name}:{}:{a}:{b}:{c}", enc.name()), json!({"prop": prop, "kind": "complex", "family": name, "enc": enc.name(), "a": a, "b": b}));
                    }
                }
            }
            st.merge(&loc);
        });
    }
    for spec in tables {
        let t = spec.build();
        let n = t.ops.len();
        let cnt = std::sync::atomic::AtomicU64::new(0);
        (0..n).into_par_iter().for_each(|ia| {
            let mut loc = Local::default();
            for ib in 0..n {
                use crate::tables::Kind;
                let (a, b) = (&t.ops[ia], &t.ops[ib]);
                if a.kind == Kind::Bowtie || b.kind == Kind::Bowtie || !(a.kind == Kind::Tri || b.kind == Kind::Tri) {
                    continue;
                }
                loc.states += 1;
                if crate::tables::edge_sets_interact(&a.edges, &b.edges) {
                    loc.nontrivial += 1;
                }
                for op in OPS {
                    for c in f(&a.mp, &b.mp, op, spec.tol(Ft::F64), None, &mut loc) {
                        loc.violation(&c, format!("{}:{ia}:{ib}:{c}", spec.name), json!({"prop": prop, "kind": "table", "table": spec.json(), "a": ia, "b": ib}));
                    }
                }
            }
            cnt.fetch_add(loc.states, std::sync::atomic::Ordering::Relaxed);
            st.merge(&loc);
        });
        st.family(&format!(
            "{}: {} ordered pairs (valid operands, at least one triangle) x 4 operations",
            spec.name,
            cnt.into_inner()
        ));
    }
}

pub fn sweep_families(thorough: bool) -> Vec<(&'static str, Enc, u32)> {
    if thorough {
        vec![
            ("G22", Enc::M, 1),
            ("G32", Enc::M, 1),
            ("G23", Enc::M, 1),
            ("G33", Enc::M, 1),
            ("T22", Enc::M, 1),
            ("O21", Enc::M, 1),
            ("O12", Enc::M, 1),
            ("G22", Enc::U, 1),
            ("G32", Enc::U, 1),
            ("G33", Enc::U, 1),
            ("T22", Enc::U, 1),
            ("O21", Enc::U, 1),
            ("G43", Enc::M, 2),
            ("T32", Enc::M, 2),
            ("O31", Enc::M, 2),
            ("G34", Enc::M, 4),
            ("T23", Enc::M, 4),
            ("O13", Enc::M, 4),
        ]
    } else {
        vec![
            ("G22", Enc::M, 1),
            ("G32", Enc::M, 1),
            ("G23", Enc::M, 1),
            ("G33", Enc::M, 1),
            ("T22", Enc::M, 1),
            ("O21", Enc::M, 1),
            ("O12", Enc::M, 1),
        ]
    }
}

pub fn run(tier: &str) -> i32 {
    let st = Stats::new("C13", tier);
    silence_panics();
    let thorough = tier == "thorough";
    let tables = if thorough {
        vec![
            p_spec(9, st.seed, 1.0, false),
            p_spec(16, st.seed, 1.0, false),
        ]
    } else {
        vec![p_spec(9, st.seed, 1.0, false)]
    };
    sweep_pairs(
        &st,
        "C13",
        &sweep_families(thorough),
        &tables,
        &|pa, pb, op, tol, _, loc| check(pa, pb, op, tol, loc),
    );
    // operands with repeated consecutive vertices (collapsed edges): "exactly one pair per NON-DEGENERATE input
    // edge" is only a statement if degenerate edges occur
    for name in ["G22", "T22"] {
        let fam = Family::new(name);
        let n = fam.cx.noperands();
        st.family(&format!("{name}/M with repeated consecutive vertices (2 variants x 3 sides) on {} ordered pairs x 4 operations", n as u64 * n as u64));
        (0..n).into_par_iter().for_each(|a| {
            let mut loc = Local::default();
            for b in 0..n {
                for kind in ["repeated-vertices", "all-rings-doubled-vertices"] {
                    for side in 1..=3u8 {
                        let va = if side & 1 != 0 { super::c03::degen_variant(&fam.m[a as usize], kind) } else { fam.m[a as usize].clone() };
                        let vb = if side & 2 != 0 { super::c03::degen_variant(&fam.m[b as usize], kind) } else { fam.m[b as usize].clone() };
                        loc.states += 1;
                        if fam.nontrivial(a, b) {
                            loc.nontrivial += 1;
                        }
                        for op in OPS {
                            for c in check(&va, &vb, op, 0.0, &mut loc) {
                                loc.violation(&c, format!("{name}:degen:{kind}:{side}:{a}:{b}:{c}"), json!({"prop": "C13", "kind": "degen", "family": name, "a": a, "b": b, "variant": kind, "side": side}));
                            }
                        }
                    }
                }
            }
            st.merge(&loc);
        });
    }
    let f = Family::new("T22");
    st.sample(json!({"family": "T22", "a_mask": 77, "b_mask": 178, "A": hex(&f.m[77]), "B": hex(&f.m[178]), "stages": "fill_queue, subdivide (public)", "ops": "all four"}));
    finish(
        &st,
        "state = ordered operand pair; transition = fill_queue + subdivide of the real implementation for one operation; checked with exact predicates: two mutually linked events per input edge with exactly one left flag, exact boxes; after subdivision every processed sub-segment is a linked left/right pair of non-zero length in sweep order, all pairs of sub-segments are disjoint / share end points only / coincide completely and then belong to different operands, and (union, xor) the sub-segments on each input edge chain from its start to its end; non-trivial = operands share a boundary point",
        &["for intersection/difference only the sub-segments whose left end the sweep processed are judged"],
        true,
        Some(&|c| replay(c, false)),
    )
}
