//! Small-scope replay of the C17 search under Miri (context for C17/C18: makes undefined behaviour in
//! the UnsafeCell-based splay tree loud). Not a verdict of any property.
use geo_booleanop::splay::{SplaySet, SplayTree};
use std::cmp::Ordering;
use std::collections::{BTreeMap, HashMap, VecDeque};

#[derive(Clone, Copy, Debug)]
enum Op {
    Ins(i8, u8),
    Rem(i8),
    Get(i8),
    Next(i8),
    Prev(i8),
    Find(i8),
    Min,
    Max,
    Clear,
}

type T = SplayTree<i8, Box<u8>, fn(&i8, &i8) -> Ordering>;
fn cmp(a: &i8, b: &i8) -> Ordering {
    a.cmp(b)
}

fn step(t: &mut T, m: &mut BTreeMap<i8, u8>, op: Op) {
    match op {
        Op::Ins(k, v) => assert_eq!(t.insert(k, Box::new(v)).map(|b| *b), m.insert(k, v)),
        Op::Rem(k) => assert_eq!(t.remove(&k).map(|b| *b), m.remove(&k)),
        Op::Get(k) => assert_eq!(t.get(&k).map(|b| **b), m.get(&k).cloned()),
        Op::Next(k) => assert_eq!(t.next(&k).map(|(a, b)| (*a, **b)), m.range((std::ops::Bound::Excluded(k), std::ops::Bound::Unbounded)).next().map(|(a, b)| (*a, *b))),
        Op::Prev(k) => assert_eq!(t.prev(&k).map(|(a, b)| (*a, **b)), m.range(..k).next_back().map(|(a, b)| (*a, *b))),
        Op::Find(k) => assert_eq!(t.find_key(&k), m.get_key_value(&k).map(|x| x.0)),
        Op::Min => assert_eq!(t.min(), m.keys().next()),
        Op::Max => assert_eq!(t.max(), m.keys().next_back()),
        Op::Clear => {
            t.clear();
            m.clear();
        }
    }
    assert_eq!(t.len(), m.len());
}

fn build(h: &[Op]) -> (T, BTreeMap<i8, u8>) {
    let mut t: T = SplayTree::new(cmp as fn(&i8, &i8) -> Ordering);
    let mut m = BTreeMap::new();
    for &op in h {
        step(&mut t, &mut m, op);
    }
    (t, m)
}

fn main() {
    let k: i8 = std::env::args().nth(1).and_then(|s| s.parse().ok()).unwrap_or(3);
    let mut ops = vec![Op::Min, Op::Max, Op::Clear];
    for key in 0..k {
        ops.extend([Op::Ins(key, 0), Op::Ins(key, 1), Op::Rem(key), Op::Get(key)]);
    }
    for key in -1..=k {
        ops.extend([Op::Next(key), Op::Prev(key), Op::Find(key)]);
    }
    let mut seen: HashMap<String, ()> = HashMap::new();
    let mut q: VecDeque<Vec<Op>> = VecDeque::new();
    seen.insert(format!("{:?}", build(&[]).0), ());
    q.push_back(vec![]);
    let (mut states, mut trans) = (1u64, 0u64);
    while let Some(h) = q.pop_front() {
        for &op in &ops {
            let (mut t, mut m) = build(&h);
            step(&mut t, &mut m, op);
            trans += 1;
            let key = format!("{:?}", t);
            if !seen.contains_key(&key) {
                seen.insert(key, ());
                states += 1;
                let mut nh = h.clone();
                nh.push(op);
                // every shape: held references across a further lookup, partial iteration then drop
                {
                    let (t2, m2) = build(&nh);
                    let held: Vec<(&i8, &Box<u8>)> = m2.keys().map(|k| (t2.find_key(k).unwrap(), t2.get(k).unwrap())).collect();
                    for probe in -1..=k {
                        t2.get(&probe);
                        t2.next(&probe);
                    }
                    for ((rk, rv), (mk, mv)) in held.iter().zip(m2.iter()) {
                        assert_eq!((**rk, ***rv), (*mk, *mv));
                    }
                }
                {
                    let (t3, _) = build(&nh);
                    let mut it = t3.into_iter();
                    it.next();
                    it.next_back();
                    drop(it);
                }
                q.push_back(nh);
            }
        }
    }
    // the same through the set wrapper, once
    let mut s = SplaySet::new(cmp as fn(&i8, &i8) -> Ordering);
    for x in [2i8, 0, 1, 2] {
        s.insert(x);
    }
    assert_eq!(s.next(&0), Some(&1));
    assert_eq!(s.into_iter().collect::<Vec<_>>(), vec![0, 1, 2]);
    println!("MIRI-SPLAY-OK keys={k} states={states} transitions={trans}");
}
