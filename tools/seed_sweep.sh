#!/bin/bash
# seed_sweep.sh <from> <to> [props...] : run quick checks under other values of VERIF_SEED (robustness of the
# checks against the seed; evidence goes to a scratch directory). Prints only non-OK outcomes.
FROM=$1; TO=$2; shift 2
PROPS=${@:-C01 C02 C03 C04 C05 C06 C07 C08 C10 C11 C13 C14 C15}
cd /verif
for s in $(seq $FROM $TO); do
  for p in $PROPS; do
    out=$(VERIF_SEED=$s VERIF_EVIDENCE_DIR=/tmp/seed-sweep-evidence ./check $p quick 2>&1); rc=$?
    if [ $rc -ne 0 ]; then echo "seed=$s $p rc=$rc: $(echo "$out" | grep -E '^(VIOLATION|MACHINERY|SUMMARY)' | head -3 | cut -c1-300)"; fi
  done
  echo "seed $s done"
done
rm -rf /tmp/seed-sweep-evidence
