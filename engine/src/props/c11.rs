//! C11: results can be fed back in — explicit-state search over result *representations*, to a fixpoint.
//! A state is a multipolygon exactly as the implementation returned it (ring order, starts, directions),
//! labelled with its model mask; a transition is op(X, Y) for two known states. At the fixpoint the claim
//! holds for operation histories of every length over the family.
use super::base::*;
use crate::complex::*;
use crate::geom::*;
use crate::oracle::*;
use crate::run::*;
use crate::stats::*;
use crate::tables::Kind;
use geo_booleanop::boolean::Operation;
use rayon::prelude::*;
use serde_json::{json, Value};
use std::collections::HashMap;

#[derive(Clone)]
enum Origin {
    Init(Enc, u32),
    Op(usize, usize, Operation),
}

struct StateRec {
    mp: MP,
    mask: u32,
    origin: Origin,
    depth: u32,
}

fn key_of(mp: &MP) -> Vec<u64> {
    let mut k = vec![];
    for p in &mp.0 {
        k.push(u64::MAX);
        for r in std::iter::once(p.exterior()).chain(p.interiors().iter()) {
            k.push(u64::MAX - 1);
            for c in &r.0 {
                k.push(c.x.to_bits());
                k.push(c.y.to_bits());
            }
        }
    }
    k
}

fn expr(states: &[StateRec], i: usize) -> Value {
    match &states[i].origin {
        Origin::Init(e, m) => json!({"init": {"enc": e.name(), "mask": m}}),
        Origin::Op(x, y, op) => json!({"op": op_name(*op), "x": expr(states, *x), "y": expr(states, *y)}),
    }
}

fn eval(fam: &Family, e: &Value) -> Result<(MP, u32), String> {
    if let Some(i) = e.get("init") {
        let m = i["mask"].as_u64().unwrap() as u32;
        return Ok((fam.enc(enc_from(i["enc"].as_str().unwrap()))[m as usize].clone(), m));
    }
    let (x, mx) = eval(fam, &e["x"])?;
    let (y, my) = eval(fam, &e["y"])?;
    let op = op_from(e["op"].as_str().unwrap());
    let r = call(&x, &y, op).res?;
    Ok((r, model(mx, my, op)))
}

/// the oracle of one transition: the result reads back as the model says and is a valid polygon set
fn judge(fam: &Family, r: &Result<MP, String>, want: u32, op: Operation) -> Vec<String> {
    let mut cl = vec![];
    match r {
        Err(_) => cl.push(format!("C11 chained-call-panics {}", op_name(op))),
        Ok(r) => {
            if fam.cx.mask_of(r).0 != want {
                cl.push(format!("C11 chained-result-wrong-region {}", op_name(op)));
            }
            let mut v = vec![];
            complex_structural(&fam.cx, r, &mut v);
            if !v.is_empty() {
                v.sort();
                v.dedup();
                cl.push(format!("C11 chained-result-not-a-valid-polygon-set [{}] {}", v.join(","), op_name(op)));
            }
        }
    }
    cl
}

/// BFS over result representations; `max_depth`: None = to the fixpoint
fn bfs(st: &Stats, name: &str, max_depth: Option<u32>, state_cap: usize) {
    let fam = Family::new(name);
    let mut states: Vec<StateRec> = vec![];
    let mut index: HashMap<Vec<u64>, usize> = HashMap::new();
    for enc in [Enc::M, Enc::U] {
        for m in 0..fam.cx.noperands() {
            let mp = fam.enc(enc)[m as usize].clone();
            let k = key_of(&mp);
            if !index.contains_key(&k) {
                index.insert(k, states.len());
                states.push(StateRec { mp, mask: m, origin: Origin::Init(enc, m), depth: 0 });
            }
        }
    }
    let initial = states.len();
    let mut frontier_start = 0usize; // states[frontier_start..] are new in the last level
    let mut depth = 0u32;
    let mut transitions = 0u64;
    let mut closed = false;
    let mut kept_violations = 0u64;
    loop {
        let n = states.len();
        if frontier_start == n {
            closed = true;
            break;
        }
        if let Some(d) = max_depth {
            if depth >= d {
                break;
            }
        }
        // a level combines all pairs with a new member: refuse levels that are out of proportion (a tree on which
        // every call yields a new representation never closes)
        if max_depth.is_none() && depth >= 6 {
            st.cap(&format!("{name}: no fixpoint within 6 levels ({} states): search abandoned", n));
            break;
        }
        let planned = (n as u64 * n as u64 - frontier_start as u64 * frontier_start as u64) * 4;
        if planned > 400_000_000 {
            st.cap(&format!("{name}: level {} would need {planned} transitions ({} states): search abandoned", depth + 1, n));
            break;
        }
        depth += 1;
        // all ordered pairs with at least one member from the last level
        let fs = frontier_start;
        // on a broken tree nearly every transition is a violation and every wrong result is a new state: stop
        // working on a level as soon as enough violations have been seen
        let seen_viol = std::sync::atomic::AtomicU64::new(kept_violations);
        let new_found = std::sync::atomic::AtomicU64::new(0);
        let results: Vec<(Vec<(usize, usize, Operation, MP, u32)>, Vec<Violation>, u64)> = (0..n)
            .into_par_iter()
            .map(|x| {
                let mut news = vec![];
                let mut viol = vec![];
                let mut t = 0u64;
                let mut local_seen: std::collections::HashSet<Vec<u64>> = Default::default();
                if seen_viol.load(std::sync::atomic::Ordering::Relaxed) >= 2000 || new_found.load(std::sync::atomic::Ordering::Relaxed) as usize > state_cap {
                    return (news, viol, t);
                }
                for y in 0..n {
                    if x < fs && y < fs {
                        continue;
                    }
                    for op in OPS {
                        let r = call(&states[x].mp, &states[y].mp, op).res;
                        t += 1;
                        let want = model(states[x].mask, states[y].mask, op);
                        for c in judge(&fam, &r, want, op) {
                            if viol.len() >= 50 {
                                break;
                            }
                            seen_viol.fetch_add(1, std::sync::atomic::Ordering::Relaxed);
                            let e = json!({"op": op_name(op), "x": expr(&states, x), "y": expr(&states, y)});
                            viol.push(Violation { clause: c.clone(), key: format!("{name}:{}", e), case: json!({"prop": "C11", "kind": "chain", "family": name, "expr": e}) });
                        }
                        if let Ok(r) = r {
                            // keep only representations that are new with respect to the states known at the
                            // start of this level (the index is read-only here) and new within this task
                            let k = key_of(&r);
                            if !index.contains_key(&k) && local_seen.insert(k) {
                                new_found.fetch_add(1, std::sync::atomic::Ordering::Relaxed);
                                news.push((x, y, op, r, want));
                            }
                        }
                    }
                }
                (news, viol, t)
            })
            .collect();
        frontier_start = n;
        for (news, viol, t) in results {
            transitions += t;
            for v in viol {
                // a broken tree produces violations on a large part of all transitions, each carrying its
                // expression tree: keep the first 2 000 per family (the verdict is settled by the first one)
                if kept_violations < 2000 {
                    st.violation(&v.clause, v.key, v.case);
                }
                kept_violations += 1;
            }
            for (x, y, op, r, want) in news {
                let k = key_of(&r);
                if !index.contains_key(&k) {
                    index.insert(k, states.len());
                    states.push(StateRec { mp: r, mask: want, origin: Origin::Op(x, y, op), depth });
                }
            }
        }
        if kept_violations >= 2000 {
            st.note(&format!("{name}: search stopped at depth {depth} after {kept_violations} violations"));
            break;
        }
        if states.len() > state_cap {
            st.cap(&format!("{name}: state cap {state_cap} exceeded at depth {depth}"));
            break;
        }
    }
    st.states.fetch_add(states.len() as u64, std::sync::atomic::Ordering::Relaxed);
    st.nontrivial.fetch_add((states.len() - initial) as u64, std::sync::atomic::Ordering::Relaxed);
    st.trans(transitions);
    let maxd = states.iter().map(|s| s.depth).max().unwrap_or(0);
    st.max("max_depth_of_a_new_representation", maxd as f64);
    st.family(&format!(
        "{name}: {} initial representations (M and U encodings), {} reached, {} transitions, {}",
        initial,
        states.len(),
        transitions,
        if closed { format!("FIXPOINT reached: no new representation after depth {maxd} (all operation histories of every length covered)") } else { format!("stopped at depth {depth} (bounded, not a fixpoint)") }
    ));
    if !closed && max_depth.is_none() {
        st.cap(&format!("{name}: search did not close"));
    }
    if let Some(s) = states.iter().rev().find(|s| s.depth == maxd && maxd > 0) {
        let i = states.iter().position(|t| std::ptr::eq(t, s)).unwrap();
        st.sample(json!({"family": name, "deepest_new_representation": hex(&s.mp), "mask": s.mask, "reached_by": expr(&states, i)}));
    }
}

fn ring_revisits_a_vertex(mp: &MP) -> bool {
    for r in mp_rings(mp) {
        let n = r.0.len();
        if n < 2 {
            continue;
        }
        let mut v: Vec<(u64, u64)> = r.0[..n - 1].iter().map(|c| (c.x.to_bits(), c.y.to_bits())).collect();
        v.sort();
        let before = v.len();
        v.dedup();
        if v.len() != before {
            return true;
        }
    }
    false
}

/// Bounded feedback pass on a family whose fixpoint is out of reach of the quick tier: every depth-1 result
/// whose rings are *not simple* (the implementation traces a hole or notch that touches the boundary in a
/// vertex inline, so the ring passes through that vertex twice) is fed back in against every initial operand,
/// on either side, for all four operations.
fn pinched_feedback(st: &Stats, name: &str) {
    let fam = Family::new(name);
    let n = fam.cx.noperands();
    let mut index: HashMap<Vec<u64>, ()> = HashMap::new();
    let firsts: Vec<Vec<(MP, u32, Value)>> = (0..n)
        .into_par_iter()
        .map(|a| {
            let mut out = vec![];
            for b in 0..n {
                for op in OPS {
                    if let Ok(r) = call(&fam.m[a as usize], &fam.m[b as usize], op).res {
                        if ring_revisits_a_vertex(&r) {
                            let e = json!({"op": op_name(op), "x": {"init": {"enc": "M", "mask": a}}, "y": {"init": {"enc": "M", "mask": b}}});
                            out.push((r, model(a, b, op), e));
                        }
                    }
                }
            }
            out
        })
        .collect();
    let mut pinched: Vec<(MP, u32, Value)> = vec![];
    let mut t1 = 0u64;
    for v in firsts {
        for (r, m, e) in v {
            let k = key_of(&r);
            if !index.contains_key(&k) {
                index.insert(k, ());
                pinched.push((r, m, e));
            }
        }
    }
    t1 += n as u64 * n as u64 * 4;
    let t2 = std::sync::atomic::AtomicU64::new(0);
    pinched.par_iter().for_each(|(x, mx, ex)| {
        let mut loc = Local::default();
        for b in 0..n {
            let y = &fam.m[b as usize];
            for op in OPS {
                for side in 0..2 {
                    let (r, want) = if side == 0 { (call(x, y, op).res, model(*mx, b, op)) } else { (call(y, x, op).res, model(b, *mx, op)) };
                    loc.transitions += 1;
                    for c in judge(&fam, &r, want, op) {
                        let yi = json!({"init": {"enc": "M", "mask": b}});
                        let e = if side == 0 { json!({"op": op_name(op), "x": ex, "y": yi}) } else { json!({"op": op_name(op), "x": yi, "y": ex}) };
                        loc.violation(&c, format!("{name}:{}", e), json!({"prop": "C11", "kind": "chain", "family": name, "expr": e}));
                    }
                }
            }
        }
        t2.fetch_add(loc.transitions, std::sync::atomic::Ordering::Relaxed);
        loc.transitions = 0;
        st.merge(&loc);
    });
    st.states.fetch_add(pinched.len() as u64, std::sync::atomic::Ordering::Relaxed);
    st.nontrivial.fetch_add(pinched.len() as u64, std::sync::atomic::Ordering::Relaxed);
    st.trans(t1 + t2.load(std::sync::atomic::Ordering::Relaxed));
    st.family(&format!(
        "{name}: feedback of non-simple results: {} distinct depth-1 results whose rings pass twice through a vertex (of {} first-level calls), each combined with all {} initial operands on either side x 4 operations ({} transitions)",
        pinched.len(),
        t1,
        n,
        t2.load(std::sync::atomic::Ordering::Relaxed)
    ));
    if let Some((r, m, e)) = pinched.first() {
        st.sample(json!({"family": name, "non_simple_result_fed_back": hex(r), "mask": m, "reached_by": e}));
    }
}

/// float clause: (A op B) op' C and C op' (A op B) with an independent third operand
fn float_triples(st: &Stats, thorough: bool) {
    let spec = p_spec(9, st.seed, 1.0, false);
    let t = spec.build();
    // an *independent* third operand: C shares no table point with A or B (A and B may share points with
    // each other). A shared point would put an inexactly computed vertex of (A op B) on an edge of C, which
    // is the inexact-degenerate situation of DESIGN 3.5, outside this clause of the property.
    let tris: Vec<usize> = (0..t.ops.len()).filter(|&i| t.ops[i].kind == Kind::Tri).collect();
    let mut all = vec![];
    for &a in &tris {
        for &b in &tris {
            if a == b {
                continue;
            }
            for &c in &tris {
                let vc = &t.ops[c].idx;
                if vc.iter().any(|v| t.ops[a].idx.contains(v) || t.ops[b].idx.contains(v)) {
                    continue;
                }
                all.push((a, b, c));
            }
        }
    }
    let want = if thorough { usize::MAX / 2 } else { 8_000 };
    let stride = if all.len() <= want { 1 } else { all.len().div_ceil(want) };
    let triples: Vec<(usize, usize, usize)> = all.iter().cloned().step_by(stride).collect();
    st.note(&format!("{} of {} admissible triangle triples taken (every {}th in lexicographic order)", triples.len(), all.len(), stride));
    st.family(&format!("{}: {} ordered triples (C vertex-disjoint from A and B) x 16 operation pairs x 2 nesting sides, regions compared at witnesses of the three-operand arrangement", spec.name, triples.len()));
    let tol = spec.tol(Ft::F64);
    triples.par_iter().for_each(|&(ia, ib, ic)| {
        let mut loc = Local::default();
        let (a, b, c) = (&t.ops[ia], &t.ops[ib], &t.ops[ic]);
        let mut edges = a.edges.clone();
        edges.extend(b.edges.iter().cloned());
        edges.extend(c.edges.iter().cloned());
        let wit = witnesses(&edges, tol);
        loc.add("faces_skipped", wit.skipped as u64);
        let truth: Vec<(bool, bool, bool)> = wit.pts.iter().map(|&w| (evenodd(&a.mp, w), evenodd(&b.mp, w), evenodd(&c.mp, w))).collect();
        loc.states += 1;
        loc.nontrivial += 1;
        for op1 in OPS {
            let r1 = match call(&a.mp, &b.mp, op1).res {
                Ok(r) => r,
                Err(_) => continue,
            };
            loc.transitions += 1;
            for op2 in OPS {
                for side in 0..2 {
                    let r2 = if side == 0 { call(&r1, &c.mp, op2) } else { call(&c.mp, &r1, op2) };
                    loc.transitions += 1;
                    let bad = match r2.res {
                        Err(_) => true,
                        Ok(r2) => wit.pts.iter().enumerate().any(|(k, &w)| {
                            let ab = model_bool(truth[k].0, truth[k].1, op1);
                            let want = if side == 0 { model_bool(ab, truth[k].2, op2) } else { model_bool(truth[k].2, ab, op2) };
                            (polywise(&r2, w) >= 1) != want
                        }),
                    };
                    if bad {
                        let c = format!("C11 chained-float-result-wrong-region ({} then {} {})", op_name(op1), op_name(op2), if side == 0 { "result-first" } else { "result-second" });
                        loc.violation(&c, format!("{}:{ia}:{ib}:{ic}:{c}", spec.name), json!({"prop": "C11", "kind": "float", "table": spec.json(), "a": ia, "b": ib, "c": ic}));
                    }
                }
            }
        }
        st.merge(&loc);
    });
}

pub fn replay(case: &Value, verbose: bool) -> Vec<String> {
    if case["kind"] == "float" {
        // re-run all 32 combinations of the triple
        let spec = TableSpec::from_json(&case["table"]);
        let t = spec.build();
        let (a, b, c) = (&t.ops[case["a"].as_u64().unwrap() as usize], &t.ops[case["b"].as_u64().unwrap() as usize], &t.ops[case["c"].as_u64().unwrap() as usize]);
        let mut edges = a.edges.clone();
        edges.extend(b.edges.iter().cloned());
        edges.extend(c.edges.iter().cloned());
        let wit = witnesses(&edges, spec.tol(Ft::F64));
        let mut cl = vec![];
        for op1 in OPS {
            if let Ok(r1) = call(&a.mp, &b.mp, op1).res {
                for op2 in OPS {
                    for side in 0..2 {
                        let r2 = if side == 0 { call(&r1, &c.mp, op2) } else { call(&c.mp, &r1, op2) };
                        let bad = match r2.res {
                            Err(_) => true,
                            Ok(r2) => wit.pts.iter().any(|&w| {
                                let ab = model_bool(evenodd(&a.mp, w), evenodd(&b.mp, w), op1);
                                let cc = evenodd(&c.mp, w);
                                let want = if side == 0 { model_bool(ab, cc, op2) } else { model_bool(cc, ab, op2) };
                                (polywise(&r2, w) >= 1) != want
                            }),
                        };
                        if bad {
                            cl.push(format!("C11 chained-float-result-wrong-region ({} then {} {})", op_name(op1), op_name(op2), if side == 0 { "result-first" } else { "result-second" }));
                        }
                    }
                }
            }
        }
        return cl;
    }
    let fam = family_cached(case["family"].as_str().unwrap());
    let e = &case["expr"];
    let op = op_from(e["op"].as_str().unwrap());
    let (x, y) = match (eval(&fam, &e["x"]), eval(&fam, &e["y"])) {
        (Ok(x), Ok(y)) => (x, y),
        _ => return vec![format!("C11 chained-call-panics {}", op_name(op))],
    };
    if verbose {
        println!("expression: {}", e);
        println!("X = {}  (mask {:#b})\nY = {}  (mask {:#b})", hex(&x.0), x.1, hex(&y.0), y.1);
    }
    let r = call(&x.0, &y.0, op).res;
    if verbose {
        if let Ok(r) = &r {
            println!("{} -> {}  (model {:#b}, read back {:#b})", op_name(op), hex(r), model(x.1, y.1, op), fam.cx.mask_of(r).0);
        }
    }
    judge(&fam, &r, model(x.1, y.1, op), op)
}

pub fn run(tier: &str) -> i32 {
    let st = Stats::new("C11", tier);
    silence_panics();
    let thorough = tier == "thorough";
    bfs(&st, "G22", None, 100_000);
    bfs(&st, "G32", None, 100_000);
    pinched_feedback(&st, "G33");
    if thorough {
        bfs(&st, "G23", None, 100_000);
        bfs(&st, "T22", None, 100_000);
        bfs(&st, "O21", None, 100_000);
        bfs(&st, "O12", None, 100_000);
        bfs(&st, "G33", Some(2), 2_000_000);
    }
    float_triples(&st, thorough);
    finish(
        &st,
        "explicit-state search: state = a multipolygon exactly as returned by the implementation (no normalisation), labelled with its model mask, canonical key = its exact coordinate list; initial states = both encodings of every face set; transition = op(X, Y) for every ordered pair of known states and every operation, judged against the bitmask model and the structural oracle; breadth-first until no new state appears (fixpoint) — because all pairs of reached states are combined this covers (A op B) op' C for every operation pair, either nesting side, and C equal to A or B again, for histories of every length; float clause: ordered triples of distinct triangles of the point table; non-trivial = states that are not initial",
        &["canonical key is the exact coordinate list: two states are merged only if they are the same input to the implementation, so merged states have identical futures"],
        true,
        Some(&|c| replay(c, false)),
    )
}
