//! Ring-set normal forms (DESIGN 4.3) and exact geometric transforms of operands.
use crate::geom::*;
use geo_types::{Coord, LineString, MultiPolygon, Polygon};

/// a ring as an open vertex list, -0.0 canonicalised to 0.0, comparable lexicographically
pub type Ring = Vec<(i64, i64)>;

fn key(x: f64) -> i64 {
    // order-preserving map of finite doubles to i64 (0.0 and -0.0 coincide)
    let x = if x == 0.0 { 0.0 } else { x };
    let b = x.to_bits() as i64;
    if b < 0 {
        i64::MIN.wrapping_sub(b).wrapping_add(0) ^ 0
    } else {
        b
    }
}

pub fn unkey(k: i64) -> f64 {
    if k < 0 {
        f64::from_bits(i64::MIN.wrapping_sub(k) as u64)
    } else {
        f64::from_bits(k as u64)
    }
}

/// open vertex list without repeated consecutive vertices (also across the closing position)
pub fn open_ring(r: &LineString<f64>) -> Vec<P> {
    let mut v: Vec<P> = vec![];
    for c in &r.0 {
        let p = (c.x, c.y);
        if v.last().map(|&q| q == p).unwrap_or(false) {
            continue;
        }
        v.push(p);
    }
    while v.len() > 1 && v[0] == v[v.len() - 1] {
        v.pop();
    }
    v
}

fn min_rotation(v: &[(i64, i64)]) -> Ring {
    let n = v.len();
    if n == 0 {
        return vec![];
    }
    let mut best: Option<Ring> = None;
    let m = *v.iter().min().unwrap();
    for s in 0..n {
        if v[s] != m {
            continue;
        }
        let r: Ring = (0..n).map(|i| v[(s + i) % n]).collect();
        if best.as_ref().map(|b| r < *b).unwrap_or(true) {
            best = Some(r);
        }
    }
    best.unwrap()
}

fn remove_collinear(v: &[P]) -> Vec<P> {
    let mut v = v.to_vec();
    loop {
        let n = v.len();
        if n < 3 {
            return v;
        }
        let mut out = vec![];
        for i in 0..n {
            let (a, b, c) = (v[(i + n - 1) % n], v[i], v[(i + 1) % n]);
            // b strictly between a and c on a straight line
            let straight = orient(a, c, b) == 0.0 && in_interior(b, (a, c));
            if !straight {
                out.push(b);
            }
        }
        if out.len() == n {
            return out;
        }
        v = out;
    }
}

#[derive(Clone, Copy, PartialEq)]
pub enum Nf {
    /// direction kept
    D,
    /// direction ignored
    U,
    /// direction kept, collinear vertices removed
    C,
    /// direction ignored, collinear vertices removed
    UC,
}

pub fn ring_nf(r: &LineString<f64>, nf: Nf) -> Ring {
    let mut v = open_ring(r);
    if nf == Nf::C || nf == Nf::UC {
        v = remove_collinear(&v);
    }
    let k: Vec<(i64, i64)> = v.iter().map(|p| (key(p.0), key(p.1))).collect();
    let fwd = min_rotation(&k);
    if nf == Nf::U || nf == Nf::UC {
        let mut rev = k.clone();
        rev.reverse();
        let bwd = min_rotation(&rev);
        if bwd < fwd {
            return bwd;
        }
    }
    fwd
}

/// the sorted multiset of all non-empty rings of a multipolygon in normal form (flat: no grouping)
pub fn ring_set(mp: &MP, nf: Nf) -> Vec<Ring> {
    let mut v: Vec<Ring> = mp_rings(mp)
        .into_iter()
        .map(|r| ring_nf(r, nf))
        .filter(|r| !r.is_empty())
        .collect();
    v.sort();
    v
}

// ------------------------------------------------------------------------------------------------
// transforms
// ------------------------------------------------------------------------------------------------

pub fn map_mp(mp: &MP, f: &dyn Fn(P) -> P) -> MP {
    let cv = |r: &LineString<f64>| {
        LineString(
            r.0.iter()
                .map(|c| {
                    let q = f((c.x, c.y));
                    Coord { x: q.0, y: q.1 }
                })
                .collect(),
        )
    };
    MultiPolygon(
        mp.0.iter()
            .map(|p| Polygon::new(cv(p.exterior()), p.interiors().iter().map(cv).collect()))
            .collect(),
    )
}

/// the 8 symmetries of the axes: index 0..8
pub fn symmetry(k: usize, p: P) -> P {
    let (x, y) = p;
    match k {
        0 => (x, y),
        1 => (-x, y),
        2 => (x, -y),
        3 => (-x, -y),
        4 => (y, x),
        5 => (-y, x),
        6 => (y, -x),
        7 => (-y, -x),
        _ => unreachable!(),
    }
}
pub const SYM_NAMES: [&str; 8] = [
    "identity",
    "mirror-x",
    "mirror-y",
    "rotate-180",
    "transpose",
    "rotate-90",
    "rotate-270",
    "anti-transpose",
];
