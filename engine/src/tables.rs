//! General-position float families: every triangle / quadrilateral / ... over a small table of points
//! with hashed coordinates. The table is a function of (VERIF_SEED, n, scale, f32?) and nothing else.
use crate::geom::*;
use geo_types::MultiPolygon;

fn splitmix(x: &mut u64) -> u64 {
    *x = x.wrapping_add(0x9E3779B97F4A7C15);
    let mut z = *x;
    z = (z ^ (z >> 30)).wrapping_mul(0xBF58476D1CE4E5B9);
    z = (z ^ (z >> 27)).wrapping_mul(0x94D049BB133111EB);
    z ^ (z >> 31)
}

#[derive(Clone, Copy, PartialEq, Eq, Debug)]
pub enum Kind {
    Tri,
    Quad,
    Bowtie,
    Holed,
    TwoPart,
    Pent,
}
impl Kind {
    pub fn name(self) -> &'static str {
        match self {
            Kind::Tri => "tri",
            Kind::Quad => "quad",
            Kind::Bowtie => "bowtie",
            Kind::Holed => "holed",
            Kind::TwoPart => "twopart",
            Kind::Pent => "pentagon",
        }
    }
}

#[derive(Clone)]
pub struct Operand {
    pub kind: Kind,
    pub idx: Vec<usize>, // indices into the point table (ring by ring, see kind)
    pub mp: MP,
    pub edges: Vec<Seg>,
}

pub struct Table {
    pub name: String,
    pub pts: Vec<P>,
    pub ops: Vec<Operand>,
    pub n_tri: usize,
}

fn segs_touch(s: Seg, t: Seg) -> bool {
    // closed segments share a point (exact)
    let (d1, d2) = (orient(s.0, s.1, t.0), orient(s.0, s.1, t.1));
    let (d3, d4) = (orient(t.0, t.1, s.0), orient(t.0, t.1, s.1));
    if ((d1 > 0.0 && d2 < 0.0) || (d1 < 0.0 && d2 > 0.0))
        && ((d3 > 0.0 && d4 < 0.0) || (d3 < 0.0 && d4 > 0.0))
    {
        return true;
    }
    on_segment(t.0, s) || on_segment(t.1, s) || on_segment(s.0, t) || on_segment(s.1, t)
}

pub fn edge_sets_interact(a: &[Seg], b: &[Seg]) -> bool {
    a.iter().any(|&s| b.iter().any(|&t| segs_touch(s, t)))
}

fn ccw(mut v: Vec<usize>, pts: &[P]) -> Vec<usize> {
    let mut s = 0.0;
    for i in 0..v.len() {
        let (a, b) = (pts[v[i]], pts[v[(i + 1) % v.len()]]);
        s += a.0 * b.1 - b.0 * a.1;
    }
    if s < 0.0 {
        v.reverse();
    }
    v
}

fn ring(idx: &[usize], pts: &[P]) -> Vec<P> {
    idx.iter().map(|&i| pts[i]).collect()
}

fn strictly_inside_tri(p: P, t: &[P]) -> bool {
    let (a, b, c) = (t[0], t[1], t[2]);
    let (o1, o2, o3) = (orient(a, b, p), orient(b, c, p), orient(c, a, p));
    (o1 > 0.0 && o2 > 0.0 && o3 > 0.0) || (o1 < 0.0 && o2 < 0.0 && o3 < 0.0)
}

impl Table {
    /// n points in [0,1)^2 * scale, hashed from the seed; regenerated until in general position
    pub fn new(name: &str, seed: u64, n: usize, scale: f64, as_f32: bool, max_twopart: usize) -> Table {
        Table::with_design(name, seed, n, scale, as_f32, max_twopart, None)
    }

    /// `design`: n points in the unit square that are jittered by hashed offsets of at most 1 % instead of
    /// being hashed from scratch — a table whose point configuration is designed (e.g. the "spike" table,
    /// in which a reflex spike of one polygon separates two edges that cross further right)
    pub fn with_design(name: &str, seed: u64, n: usize, scale: f64, as_f32: bool, max_twopart: usize, design: Option<&[P]>) -> Table {
        let mut st = seed.wrapping_mul(0x2545F4914F6CDD1D) ^ (n as u64) << 32 ^ scale.to_bits();
        let pts = loop {
            let mut pts: Vec<P> = vec![];
            for i in 0..n {
                let hx = (splitmix(&mut st) >> 11) as f64 / (1u64 << 53) as f64;
                let hy = (splitmix(&mut st) >> 11) as f64 / (1u64 << 53) as f64;
                // tables whose name starts with "PI": integer coordinates centred on the origin (span = scale)
                let centred_int = name.starts_with("PI");
                let (x, y) = match design {
                    Some(d) => ((d[i].0 + 0.01 * hx) * scale, (d[i].1 + 0.01 * hy) * scale),
                    None if centred_int => (((hx - 0.5) * scale).round(), ((hy - 0.5) * scale).round()),
                    None => (hx * scale, hy * scale),
                };
                pts.push(if as_f32 {
                    (x as f32 as f64, y as f32 as f64)
                } else {
                    (x, y)
                });
            }
            let mut ok = true;
            'o: for i in 0..n {
                for j in i + 1..n {
                    if pts[i] == pts[j] || pts[i].0 == pts[j].0 || pts[i].1 == pts[j].1 {
                        ok = false;
                        break 'o;
                    }
                    // not too close (keeps every face wider than the tolerance)
                    let d = ((pts[i].0 - pts[j].0).powi(2) + (pts[i].1 - pts[j].1).powi(2)).sqrt();
                    if d < 0.02 * scale {
                        ok = false;
                        break 'o;
                    }
                    for k in j + 1..n {
                        let o = orient(pts[i], pts[j], pts[k]);
                        // exact non-collinearity plus a margin: no point within 1e-3*scale of a segment of two others
                        if o == 0.0
                            || dist_pt_seg(pts[k], (pts[i], pts[j])) < 2e-3 * scale
                            || dist_pt_seg(pts[i], (pts[j], pts[k])) < 2e-3 * scale
                            || dist_pt_seg(pts[j], (pts[i], pts[k])) < 2e-3 * scale
                        {
                            ok = false;
                            break 'o;
                        }
                    }
                }
            }
            if ok {
                break pts;
            }
        };
        let mut ops = vec![];
        let mk = |kind: Kind, idx: Vec<usize>, mp: MP| {
            let edges = mp_edges(&mp);
            Operand {
                kind,
                idx,
                mp,
                edges,
            }
        };
        // triangles
        let mut tris: Vec<Vec<usize>> = vec![];
        for i in 0..n {
            for j in i + 1..n {
                for k in j + 1..n {
                    tris.push(ccw(vec![i, j, k], &pts));
                }
            }
        }
        for t in &tris {
            ops.push(mk(
                Kind::Tri,
                t.clone(),
                MultiPolygon(vec![poly_from(&ring(t, &pts), &[])]),
            ));
        }
        let n_tri = ops.len();
        // quadrilaterals: the three cyclic orders of every 4-subset
        for i in 0..n {
            for j in i + 1..n {
                for k in j + 1..n {
                    for l in k + 1..n {
                        for ord in [[i, j, k, l], [i, j, l, k], [i, k, j, l]] {
                            let r = ring(&ord, &pts);
                            let cross1 = proper_cross((r[0], r[1]), (r[2], r[3]));
                            let cross2 = proper_cross((r[1], r[2]), (r[3], r[0]));
                            if cross1 || cross2 {
                                ops.push(mk(
                                    Kind::Bowtie,
                                    ord.to_vec(),
                                    MultiPolygon(vec![poly_from(&r, &[])]),
                                ));
                            } else {
                                let o = ccw(ord.to_vec(), &pts);
                                ops.push(mk(
                                    Kind::Quad,
                                    o.clone(),
                                    MultiPolygon(vec![poly_from(&ring(&o, &pts), &[])]),
                                ));
                            }
                        }
                    }
                }
            }
        }
        // triangle with a strictly contained triangular hole (vertex-disjoint)
        for t in &tris {
            let tr = ring(t, &pts);
            for h in &tris {
                if h.iter().any(|x| t.contains(x)) {
                    continue;
                }
                let hr = ring(h, &pts);
                if hr.iter().all(|&p| strictly_inside_tri(p, &tr)) {
                    let mut hole = hr.clone();
                    hole.reverse(); // holes clockwise
                    let mut idx = t.clone();
                    idx.extend(h.iter().rev());
                    ops.push(mk(
                        Kind::Holed,
                        idx,
                        MultiPolygon(vec![poly_from(&tr, &[hole])]),
                    ));
                }
            }
        }
        // two exactly disjoint triangles as a two-part operand (lexicographically first `max_twopart`)
        let mut cnt = 0;
        'tp: for (x, t) in tris.iter().enumerate() {
            for h in tris.iter().skip(x + 1) {
                if h.iter().any(|v| t.contains(v)) {
                    continue;
                }
                let (tr, hr) = (ring(t, &pts), ring(h, &pts));
                let te: Vec<Seg> = (0..3).map(|i| (tr[i], tr[(i + 1) % 3])).collect();
                let he: Vec<Seg> = (0..3).map(|i| (hr[i], hr[(i + 1) % 3])).collect();
                if edge_sets_interact(&te, &he) {
                    continue;
                }
                if strictly_inside_tri(hr[0], &tr) || strictly_inside_tri(tr[0], &hr) {
                    continue;
                }
                if cnt >= max_twopart {
                    break 'tp;
                }
                cnt += 1;
                let mut idx = t.clone();
                idx.extend(h.iter());
                ops.push(mk(
                    Kind::TwoPart,
                    idx,
                    MultiPolygon(vec![poly_from(&tr, &[]), poly_from(&hr, &[])]),
                ));
            }
        }
        // simple pentagons (appended last so that the indices of the other kinds are stable): every cyclic
        // order of every 5-subset whose non-adjacent edges are disjoint; only for tables of at most 9 points
        if n <= 9 {
            let mut idx5 = vec![];
            for a in 0..n {
                for b in a + 1..n {
                    for c in b + 1..n {
                        for d in c + 1..n {
                            for e in d + 1..n {
                                idx5.push([a, b, c, d, e]);
                            }
                        }
                    }
                }
            }
            for sub in idx5 {
                // cyclic orders up to rotation and reflection: fix the first element, permute the rest, keep p[1] < p[4]
                let rest = [sub[1], sub[2], sub[3], sub[4]];
                let perms4 = permutations4();
                for pm in perms4 {
                    let ord = [sub[0], rest[pm[0]], rest[pm[1]], rest[pm[2]], rest[pm[3]]];
                    if ord[1] > ord[4] {
                        continue;
                    }
                    let r = ring(&ord, &pts);
                    let mut simple = true;
                    for i in 0..5 {
                        for j in i + 1..5 {
                            if j == i + 1 || (i == 0 && j == 4) {
                                continue;
                            }
                            if segs_touch((r[i], r[(i + 1) % 5]), (r[j], r[(j + 1) % 5])) {
                                simple = false;
                            }
                        }
                    }
                    if simple {
                        let o = ccw(ord.to_vec(), &pts);
                        ops.push(mk(Kind::Pent, o.clone(), MultiPolygon(vec![poly_from(&ring(&o, &pts), &[])])));
                    }
                }
            }
        }
        Table {
            name: name.into(),
            pts,
            ops,
            n_tri,
        }
    }

    /// the self-crossing restriction of DESIGN 3.3: a bow-tie is only paired with operands that
    /// share no full edge with it
    pub fn pair_allowed(&self, a: &Operand, b: &Operand) -> bool {
        if a.kind != Kind::Bowtie && b.kind != Kind::Bowtie {
            return true;
        }
        for &(p, q) in &a.edges {
            for &(r, s) in &b.edges {
                if (p == r && q == s) || (p == s && q == r) {
                    return false;
                }
            }
        }
        true
    }
}

fn permutations4() -> Vec<[usize; 4]> {
    let mut v = vec![];
    for a in 0..4 {
        for b in 0..4 {
            for c in 0..4 {
                for d in 0..4 {
                    if a != b && a != c && a != d && b != c && b != d && c != d {
                        v.push([a, b, c, d]);
                    }
                }
            }
        }
    }
    v
}
