//! Stateless schedule exploration with a preemption bound (C12c): real OS threads, each running one
//! real BooleanOp call, serialised by a baton that changes hands only at the library's hook points.
//! Canonical order of the enabled set: the running thread first (if still enabled), then ascending ids.
//! Beyond the given prefix of choices the default choice 0 (no switch) is taken.
use std::sync::{Arc, Condvar, Mutex};
use std::time::{Duration, Instant};

#[derive(Clone, Debug)]
pub struct Point {
    pub enabled: Vec<usize>,
    pub running_still_enabled: bool,
    pub choice: usize,
}

struct State {
    /// thread that holds the baton (usize::MAX: none yet)
    current: usize,
    started: Vec<bool>,
    finished: Vec<bool>,
    prefix: Vec<usize>,
    points: Vec<Point>,
    /// a replayed prefix asked for a choice that does not exist: the execution diverged
    diverged: bool,
    /// the baton holder did not reach a scheduling point in time: everybody runs free from here on
    free_run: bool,
    last_progress: Instant,
}

pub struct Sched {
    st: Mutex<State>,
    cv: Condvar,
    n: usize,
}

pub struct Execution {
    pub points: Vec<Point>,
    pub diverged: bool,
    pub abandoned: bool,
}

const STALL: Duration = Duration::from_secs(3);

impl Sched {
    pub fn new(n: usize, prefix: Vec<usize>) -> Arc<Sched> {
        Arc::new(Sched {
            st: Mutex::new(State {
                current: usize::MAX,
                started: vec![false; n],
                finished: vec![false; n],
                prefix,
                points: vec![],
                diverged: false,
                free_run: false,
                last_progress: Instant::now(),
            }),
            cv: Condvar::new(),
            n,
        })
    }

    fn decide(&self, st: &mut State, running: Option<usize>) {
        // enabled threads in canonical order
        let mut enabled: Vec<usize> = vec![];
        let still = running.map(|r| !st.finished[r]).unwrap_or(false);
        if still {
            enabled.push(running.unwrap());
        }
        for t in 0..self.n {
            if !st.finished[t] && Some(t) != running.filter(|_| still) {
                enabled.push(t);
            }
        }
        if enabled.is_empty() {
            st.current = usize::MAX;
            return;
        }
        let i = st.points.len();
        let choice = if i < st.prefix.len() { st.prefix[i] } else { 0 };
        let choice = if choice >= enabled.len() {
            st.diverged = true;
            0
        } else {
            choice
        };
        st.current = enabled[choice];
        st.points.push(Point { enabled, running_still_enabled: still, choice });
        st.last_progress = Instant::now();
    }

    fn wait_for_baton(&self, me: usize, mut st: std::sync::MutexGuard<State>) {
        loop {
            if st.free_run || st.current == me {
                return;
            }
            let (g, to) = self.cv.wait_timeout(st, Duration::from_millis(200)).unwrap();
            st = g;
            if to.timed_out() && !st.free_run && st.last_progress.elapsed() > STALL {
                // whoever holds the baton is blocked outside the scheduler's control
                st.free_run = true;
                self.cv.notify_all();
                return;
            }
        }
    }

    /// called by a worker before it does anything: waits until it is scheduled for the first time
    pub fn start(&self, me: usize) {
        let mut st = self.st.lock().unwrap();
        st.started[me] = true;
        if st.started.iter().all(|&s| s) && st.current == usize::MAX && st.points.is_empty() {
            // everybody has arrived: the initial choice
            self.decide(&mut st, None);
            self.cv.notify_all();
        }
        self.wait_for_baton(me, st);
    }

    /// a scheduling point inside the library (hook callback)
    pub fn point(&self, me: usize) {
        let mut st = self.st.lock().unwrap();
        if st.free_run {
            return;
        }
        debug_assert_eq!(st.current, me);
        self.decide(&mut st, Some(me));
        if st.current != me {
            self.cv.notify_all();
            self.wait_for_baton(me, st);
        }
    }

    pub fn finish(&self, me: usize) {
        let mut st = self.st.lock().unwrap();
        st.finished[me] = true;
        if st.free_run {
            return;
        }
        self.decide(&mut st, Some(me));
        self.cv.notify_all();
    }

    pub fn result(&self) -> Execution {
        let st = self.st.lock().unwrap();
        Execution { points: st.points.clone(), diverged: st.diverged, abandoned: st.free_run }
    }
}

pub fn preemptions(points: &[Point], upto: usize) -> usize {
    points[..upto].iter().filter(|p| p.running_still_enabled && p.choice != 0).count()
}

/// Depth-first enumeration of all schedules with at most `bound` preemptions (the explorer of the brief).
/// `run` executes one schedule given the prefix of choices and returns its scheduling points;
/// `visit` is called once per complete execution. Returns (schedules, max points per schedule).
pub fn explore(bound: usize, run: &mut dyn FnMut(&[usize]) -> Execution, visit: &mut dyn FnMut(&[usize], &Execution), cap: usize) -> (u64, usize, bool) {
    let mut stack: Vec<Vec<usize>> = vec![vec![]];
    let (mut n, mut maxp, mut capped) = (0u64, 0usize, false);
    while let Some(prefix) = stack.pop() {
        if n as usize >= cap {
            capped = true;
            break;
        }
        let x = run(&prefix);
        n += 1;
        maxp = maxp.max(x.points.len());
        let choices: Vec<usize> = x.points.iter().map(|p| p.choice).collect();
        visit(&choices, &x);
        if x.diverged || x.abandoned {
            continue;
        }
        for i in prefix.len()..x.points.len() {
            let p = &x.points[i];
            let mut cost = preemptions(&x.points, i);
            if p.running_still_enabled {
                cost += 1;
            }
            if cost > bound {
                continue;
            }
            for alt in 1..p.enabled.len() {
                let mut np = choices[..i].to_vec();
                np.push(alt);
                stack.push(np);
            }
        }
    }
    (n, maxp, capped)
}
