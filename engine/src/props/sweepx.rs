//! Shared driver for C13 C14 C15: runs the public stages `fill_queue` and `subdivide` of the real
//! implementation on an operand pair and hands out the events before and after subdivision.
use crate::geom::*;
use crate::run::*;
use geo_booleanop::boolean::fill_queue::fill_queue;
use geo_booleanop::boolean::subdivide_segments::subdivide;
use geo_booleanop::boolean::sweep_event::SweepEvent;
use geo_booleanop::boolean::{BoundingBox, Operation};
use geo_booleanop::verif_hooks as hooks;
use geo_types::Coord;
use std::panic::{catch_unwind, AssertUnwindSafe};
use std::rc::Rc;

pub type E = Rc<SweepEvent<f64>>;

pub fn ept(e: &E) -> P {
    (e.point.x, e.point.y)
}
pub fn eopt(e: &E) -> P {
    ept(&e.get_other_event().expect("event without other event"))
}

pub struct SweepOut {
    pub pre: Vec<E>,
    pub post: Vec<E>,
    pub sb: BoundingBox<f64>,
    pub cb: BoundingBox<f64>,
    /// x beyond which the sweep of this operation stops early (infinite for union / xor)
    pub bound: f64,
    pub events: u64,
    pub early: bool,
    /// events still in the queue when the sweep stopped early (kept alive: processed sub-segments may
    /// have their right event among them)
    pub rest: Vec<E>,
}

pub fn run_sweep(pa: &MP, pb: &MP, op: Operation) -> Result<SweepOut, String> {
    run_sweep_with(pa, pb, op, &mut |_, _, _| {})
}

/// `between` sees the queue contents and the boxes after `fill_queue`, before `subdivide` mutates the events
pub fn run_sweep_with(
    pa: &MP,
    pb: &MP,
    op: Operation,
    between: &mut dyn FnMut(&[E], &BoundingBox<f64>, &BoundingBox<f64>),
) -> Result<SweepOut, String> {
    let inf = f64::INFINITY;
    let n = n_edges(pa, pb);
    hooks::begin_call();
    hooks::set_budget(8 * event_bound(n));
    let _watch = crate::watch::enter_call(pa, pb, op, Ft::F64);
    catch_unwind(AssertUnwindSafe(|| {
        let mut sb = BoundingBox {
            min: Coord { x: inf, y: inf },
            max: Coord { x: -inf, y: -inf },
        };
        let mut cb = sb;
        let mut q = fill_queue(&pa.0, &pb.0, &mut sb, &mut cb, op);
        let pre: Vec<E> = q.iter().cloned().collect();
        between(&pre, &sb, &cb);
        let post = subdivide(&mut q, &sb, &cb, op);
        let bound = match op {
            Operation::Intersection => sb.max.x.min(cb.max.x),
            Operation::Difference => sb.max.x,
            _ => inf,
        };
        SweepOut {
            pre,
            post,
            sb,
            cb,
            bound,
            events: hooks::events(),
            early: hooks::early_break_taken(),
            rest: q.drain().collect(),
        }
    }))
    .map_err(panic_msg)
}

impl SweepOut {
    /// left events of the sub-segments that were processed by the sweep
    pub fn processed_lefts(&self) -> Vec<&E> {
        self.post
            .iter()
            .filter(|e| e.is_left() && !(e.point.x > self.bound))
            .collect()
    }
}
