#!/bin/bash
# confirm_seed.sh <worktree> <seed-id> : independently confirm a seeded change produced in a scratch worktree
#  (1) existing suite passes with the change, (2) demo fails with it, (3) demo passes without it.
# On success copies patch.diff / demo.rs / README.md to /verif/seeded/<seed-id>/ and prints CONFIRMED.
set -u
WT=$1; ID=$2
cd "$WT" || exit 2
export CARGO_NET_OFFLINE=true
[ -f _seed/patch.diff ] && [ -f _seed/demo.rs ] || { echo "missing deliverables"; exit 2; }
git checkout -q -- lib tests 2>/dev/null
rm -f lib/tests/seed_demo.rs
git apply _seed/patch.diff || { echo "patch does not apply"; exit 2; }
suite=$(cargo test --workspace --no-fail-fast --offline 2>&1 | grep -E "^test result" | awk '{p+=$4; f+=$6} END {print p" passed "f" failed"}')
mkdir -p lib/tests; cp _seed/demo.rs lib/tests/seed_demo.rs
with=$(cargo test -p geo-booleanop --test seed_demo --offline 2>&1 | grep -E "^test result" | head -1)
git checkout -q -- lib/src
without=$(cargo test -p geo-booleanop --test seed_demo --offline 2>&1 | grep -E "^test result" | head -1)
rm -f lib/tests/seed_demo.rs
git apply _seed/patch.diff
echo "suite with change: $suite"
echo "demo with change:    $with"
echo "demo without change: $without"
if [ "$suite" = "45 passed 0 failed" ] && { echo "$with" | grep -q "FAILED" || [ -z "$with" ]; } && echo "$without" | grep -q "test result: ok" ; then
    mkdir -p /verif/seeded/$ID
    cp _seed/patch.diff _seed/demo.rs /verif/seeded/$ID/
    [ -f _seed/README.md ] && cp _seed/README.md /verif/seeded/$ID/README.md
    printf '%s\n%s\n%s\n' "suite with change: $suite" "demo with change: $with" "demo without change: $without" > /verif/seeded/$ID/confirmation.txt
    echo CONFIRMED
else
    echo NOT-CONFIRMED
fi
