//! C15: the event order and the segment order are consistent orderings.
use super::base::*;
use super::c13::{operands_of_case, sweep_pairs};
use super::sweepx::*;
use crate::complex::*;
use crate::geom::*;
use crate::run::*;
use crate::stats::*;
use geo_booleanop::boolean::compare_segments::compare_segments;
use geo_booleanop::boolean::Operation;
use serde_json::{json, Value};
use std::cmp::Ordering as O;
use std::collections::HashMap;
use std::rc::Rc;

/// independently written reference: true if a is processed before b
/// (x, then y, then right before left, then the lower segment first, then subject first)
fn ref_before(a: &E, b: &E) -> bool {
    let (pa, pb) = (ept(a), ept(b));
    if pa.0 != pb.0 {
        return pa.0 < pb.0;
    }
    if pa.1 != pb.1 {
        return pa.1 < pb.1;
    }
    if a.is_left() != b.is_left() {
        return !a.is_left();
    }
    let (l_a, r_a) = if a.is_left() {
        (pa, eopt(a))
    } else {
        (eopt(a), pa)
    };
    let s = orient(l_a, r_a, eopt(b));
    if s != 0.0 {
        return s > 0.0; // b's far end lies above a's line: a is the lower one
    }
    a.is_subject && !b.is_subject
}

/// exact vertical order of two non-crossing, non-vertical segments with a common open x-range:
/// Some(true) a below b, Some(false) a above b, None if they are not vertically separated anywhere
fn vertical_order(a: Seg, b: Seg) -> Option<bool> {
    let (lo, hi) = (a.0 .0.max(b.0 .0), a.1 .0.min(b.1 .0));
    if !(lo < hi) || a.0 .0 == a.1 .0 || b.0 .0 == b.1 .0 {
        return None;
    }
    // sign > 0: b above a
    let at_lo = if b.0 .0 >= a.0 .0 {
        orient(a.0, a.1, b.0)
    } else {
        -orient(b.0, b.1, a.0)
    };
    let at_hi = if b.1 .0 <= a.1 .0 {
        orient(a.0, a.1, b.1)
    } else {
        -orient(b.0, b.1, a.1)
    };
    if at_lo > 0.0 || (at_lo == 0.0 && at_hi > 0.0) {
        if at_hi < 0.0 {
            return None; // they cross: not this clause's subject
        }
        Some(true)
    } else if at_lo < 0.0 || (at_lo == 0.0 && at_hi < 0.0) {
        if at_hi > 0.0 {
            return None;
        }
        Some(false)
    } else {
        None
    }
}

fn check_event_order(evs: &[E], tag: &str, op: Operation, cl: &mut Vec<String>, loc: &mut Local) {
    let mut add = |s: &str| {
        let c = format!("C15 event-order {tag}: {s} {}", op_name(op));
        if !cl.contains(&c) {
            cl.push(c);
        }
    };
    let n = evs.len();
    loc.add("event_pairs_compared", (n * n.saturating_sub(1)) as u64);
    for i in 0..n {
        for j in 0..n {
            if i == j {
                continue;
            }
            let c = evs[i].cmp(&evs[j]);
            if c == O::Equal {
                add("Equal for distinct events");
            }
            if c != evs[j].cmp(&evs[i]).reverse() {
                add("not antisymmetric");
            }
            // the implementation's Ord is inverted for the max-heap: Greater means "processed first"
            if (c == O::Greater) != ref_before(&evs[i], &evs[j]) {
                add("disagrees with the reference order (x, y, right-before-left, angular, subject-first)");
            }
        }
    }
    let mut by: HashMap<(u64, u64), Vec<usize>> = HashMap::new();
    for (i, e) in evs.iter().enumerate() {
        by.entry((e.point.x.to_bits(), e.point.y.to_bits()))
            .or_default()
            .push(i);
    }
    for g in by.values() {
        for &i in g {
            for &j in g {
                for &k in g {
                    if i != j && j != k && i != k {
                        loc.add("same_point_triples", 1);
                        if evs[i].cmp(&evs[j]) == O::Greater
                            && evs[j].cmp(&evs[k]) == O::Greater
                            && evs[i].cmp(&evs[k]) != O::Greater
                        {
                            add("not transitive");
                        }
                    }
                }
            }
        }
    }
}

fn check_segment_order(lefts: &[&E], tag: &str, op: Operation, cl: &mut Vec<String>, loc: &mut Local) {
    let mut add = |s: &str| {
        let c = format!("C15 segment-order {tag}: {s} {}", op_name(op));
        if !cl.contains(&c) {
            cl.push(c);
        }
    };
    for i in 0..lefts.len() {
        for j in 0..lefts.len() {
            if i == j {
                continue;
            }
            let (s, t) = (lefts[i], lefts[j]);
            let (a, b) = ((ept(s), eopt(s)), (ept(t), eopt(t)));
            if a.0 .0.max(b.0 .0) > a.1 .0.min(b.1 .0) {
                continue; // x-extents do not overlap
            }
            loc.add("segment_pairs_compared", 1);
            let c = compare_segments(s, t);
            if c == O::Equal && !Rc::ptr_eq(s, t) {
                add("Equal for distinct segments");
            }
            if c != compare_segments(t, s).reverse() {
                add("not antisymmetric");
            }
            if let Some(a_below) = vertical_order(a, b) {
                loc.add("segment_pairs_vertically_separated", 1);
                if (c == O::Less) != a_below {
                    add("disagrees with the vertical order of separated segments");
                }
            }
        }
    }
    for s in lefts {
        if compare_segments(s, s) != O::Equal {
            add("a segment does not compare Equal to itself");
        }
    }
}

pub fn check(pa: &MP, pb: &MP, op: Operation, loc: &mut Local) -> Vec<String> {
    let mut cl: Vec<String> = vec![];
    let mut pre_cl: Vec<String> = vec![];
    let mut pre_loc = Local::default();
    let sw = match run_sweep_with(pa, pb, op, &mut |pre, _, _| {
        check_event_order(pre, "before-subdivision", op, &mut pre_cl, &mut pre_loc);
        // the input edges themselves (T-junctions, partial overlaps and proper crossings are still present)
        let lefts: Vec<&E> = pre.iter().filter(|e| e.is_left()).collect();
        check_segment_order(&lefts, "before-subdivision", op, &mut pre_cl, &mut pre_loc);
    }) {
        Ok(s) => s,
        Err(_) => {
            loc.add("panics", 1);
            return cl;
        }
    };
    loc.transitions += 1;
    cl.extend(pre_cl);
    for (k, v) in pre_loc.counters {
        loc.add(k, v);
    }
    // after subdivision the links of pre-events have changed; all events returned by the sweep are judged
    check_event_order(&sw.post, "after-subdivision", op, &mut cl, loc);
    let lefts = sw.processed_lefts();
    check_segment_order(&lefts, "after-subdivision", op, &mut cl, loc);
    cl
}

// ------------------------------------------------------------------------------------------------
// single precision: the input events of the near-collinear apex fans of C10 (integer coordinates, exact in
// f32, coordinate differences inexact in f32). The exact angular order is well defined; the f32 instantiation
// must realise it. Only the orderings are judged here (no intersection is computed by fill_queue).
// ------------------------------------------------------------------------------------------------

pub fn fan_order_case(k: usize, swapped: bool) -> Vec<String> {
    use geo_booleanop::boolean::fill_queue::fill_queue;
    use geo_booleanop::boolean::sweep_event::SweepEvent;
    use geo_booleanop::boolean::BoundingBox;
    let (a, b) = super::c10::fan(k);
    let (a, b) = if swapped { (b, a) } else { (a, b) };
    let (a32, b32) = (to32(&a), to32(&b));
    let inf = f32::INFINITY;
    let mut sb = BoundingBox { min: geo_types::Coord { x: inf, y: inf }, max: geo_types::Coord { x: -inf, y: -inf } };
    let mut cb = sb;
    let q = fill_queue(&a32.0, &b32.0, &mut sb, &mut cb, Operation::Union);
    let evs: Vec<Rc<SweepEvent<f32>>> = q.iter().cloned().collect();
    let pt = |e: &Rc<SweepEvent<f32>>| -> P { (e.point.x as f64, e.point.y as f64) };
    let opt = |e: &Rc<SweepEvent<f32>>| -> P { pt(&e.get_other_event().unwrap()) };
    let ref_before = |x: &Rc<SweepEvent<f32>>, y: &Rc<SweepEvent<f32>>| -> bool {
        let (px, py) = (pt(x), pt(y));
        if px.0 != py.0 {
            return px.0 < py.0;
        }
        if px.1 != py.1 {
            return px.1 < py.1;
        }
        if x.is_left() != y.is_left() {
            return !x.is_left();
        }
        let (l, r) = if x.is_left() { (px, opt(x)) } else { (opt(x), px) };
        let s = orient(l, r, opt(y));
        if s != 0.0 {
            return s > 0.0;
        }
        x.is_subject && !y.is_subject
    };
    let mut cl: Vec<String> = vec![];
    let mut add = |s: &str| {
        let c = format!("C15 f32 fan: {s}");
        if !cl.contains(&c) {
            cl.push(c);
        }
    };
    for i in 0..evs.len() {
        for j in 0..evs.len() {
            if i == j {
                continue;
            }
            let c = evs[i].cmp(&evs[j]);
            if c == O::Equal {
                add("event order Equal for distinct events");
            }
            if c != evs[j].cmp(&evs[i]).reverse() {
                add("event order not antisymmetric");
            }
            if (c == O::Greater) != ref_before(&evs[i], &evs[j]) {
                add("event order disagrees with the exact angular reference order");
            }
        }
    }
    let lefts: Vec<&Rc<SweepEvent<f32>>> = evs.iter().filter(|e| e.is_left()).collect();
    for &s in &lefts {
        for &t in &lefts {
            if Rc::ptr_eq(s, t) {
                continue;
            }
            let (sa, sb2) = ((pt(s), opt(s)), (pt(t), opt(t)));
            if sa.0 .0.max(sb2.0 .0) > sa.1 .0.min(sb2.1 .0) {
                continue;
            }
            let c = compare_segments(s, t);
            if c != compare_segments(t, s).reverse() {
                add("segment order not antisymmetric");
            }
            if !proper_cross(sa, sb2) {
                if let Some(a_below) = vertical_order(sa, sb2) {
                    if (c == O::Less) != a_below {
                        add("segment order disagrees with the exact vertical order");
                    }
                }
            }
        }
    }
    cl
}

pub fn replay(case: &Value, verbose: bool) -> Vec<String> {
    if case["kind"] == "fan" {
        return fan_order_case(case["k"].as_u64().unwrap() as usize, case["swapped"].as_bool().unwrap());
    }
    let mut loc = Local::default();
    let (pa, pb, _) = operands_of_case(case, verbose);
    let mut cl = vec![];
    for op in OPS {
        cl.extend(check(&pa, &pb, op, &mut loc));
    }
    cl
}

pub fn run(tier: &str) -> i32 {
    let st = Stats::new("C15", tier);
    silence_panics();
    let thorough = tier == "thorough";
    let fams: Vec<(&str, Enc, u32)> = if thorough {
        vec![
            ("G22", Enc::M, 1),
            ("G32", Enc::M, 1),
            ("G23", Enc::M, 1),
            ("T22", Enc::M, 1),
            ("O21", Enc::M, 1),
            ("O12", Enc::M, 1),
            ("G33", Enc::M, 1),
            ("G22", Enc::U, 1),
            ("G32", Enc::U, 1),
            ("T22", Enc::U, 1),
            ("O21", Enc::U, 1),
            ("G33", Enc::U, 4),
        ]
    } else {
        vec![
            ("G22", Enc::M, 1),
            ("G32", Enc::M, 1),
            ("G23", Enc::M, 1),
            ("T22", Enc::M, 2),
            ("O21", Enc::M, 2),
            ("G33", Enc::M, 16),
        ]
    };
    let tables = vec![p_spec(9, st.seed, 1.0, false)];
    sweep_pairs(&st, "C15", &fams, &tables, &|pa, pb, op, _tol, _, loc| {
        check(pa, pb, op, loc)
    });
    let n_fans = if thorough { 40_000 } else { 4_000 };
    st.family(&format!("f32: input events of {n_fans} near-collinear apex fans (x 2 operand orders): Ord and compare_segments against the exact angular / vertical order"));
    for k in 0..n_fans {
        for sw in [false, true] {
            st.state(true);
            st.trans(1);
            for c in fan_order_case(k, sw) {
                st.violation(&c, format!("fan:{k}:{sw}:{c}"), json!({"prop": "C15", "kind": "fan", "k": k, "swapped": sw}));
            }
        }
    }
    let f = Family::new("O21");
    st.sample(json!({"family": "O21", "a_mask": 165, "b_mask": 90, "A": hex(&f.m[165]), "B": hex(&f.m[90]), "note": "four edges of each operand meet in the centre points: many events share a point", "ops": "all four"}));
    finish(
        &st,
        "state = ordered operand pair x operation; transition = fill_queue + subdivide; on the event sets before and after subdivision: Ord::cmp on every ordered pair of distinct events (never Equal, antisymmetric, equal to an independently written reference order), transitivity on every triple of events sharing a point (across points it follows from the lexicographic prefix pinned by the reference); compare_segments on every ordered pair of processed left events with overlapping x-extent (Equal only for the identical segment, antisymmetric, agreeing with the exact vertical order of non-crossing separated segments); non-trivial = operands share a boundary point",
        &["vertical order is decided with exact orientation tests at the ends of the common x-range"],
        true,
        Some(&|c| replay(c, false)),
    )
}
