#!/usr/bin/env python3
"""Writes /verif/seeded/<id>/meta.json from the table below + confirmation.txt + detection.txt,
and prints the detection matrix (markdown) for DESIGN.md."""
import json, os, re, glob

SEEDS = {
 "S01-c02-vertical-prev-in-result": dict(prop="C02", origin="independent sub-agent (property text + scratch worktree only)",
    change="compute_fields: a vertical predecessor that is in the result is accepted as prev_in_result (the `&& !prev.is_vertical()` guard is dropped)",
    needs="a ring whose leftmost vertex lies in the interior of a vertical result edge of another ring (point contact from the right)"),
 "S02-c17-splay-swap-contents": dict(prop="C17", origin="independent sub-agent",
    change="splay(): the zig-zig rotations swap the *contents* of two nodes instead of the two boxes",
    needs="a reference handed out by a lookup is held across a later lookup of another key whose splay path takes a zig-zig step through that node; all return values stay correct"),
 "S03-c09-bbox-else-if": dict(prop="C09", origin="independent sub-agent",
    change="fill_queue: the y-range of the operand boxes is updated with if/else-if instead of min/max, so the first vertex never raises max.y",
    needs="an operand whose first listed vertex is its unique topmost vertex and another operand lying entirely above the under-estimated max.y: the bounding-box shortcut is then taken for overlapping operands"),
 "S04-c12-threadlocal-processed-bitmap": dict(prop="C12", origin="independent sub-agent",
    change="connect_edges: the per-call `processed` set becomes a thread-local scratch bitmap that is cleared on the normal exit path only",
    needs="a history on one thread in which a call unwinds inside connect_edges after completing a contour, followed by any call with a non-empty result"),
 "S05-c08-absolute-epsilon-collinear": dict(prop="C08", origin="independent sub-agent",
    change="segment_intersection: collinearity test of parallel segments uses `> F::epsilon()` instead of `> 0`",
    needs="exactly parallel, non-collinear oblique edges of different operands that are neighbours in the sweep line, at coordinates scaled down by 2^-15 or more"),
 "S06-c04-contour-termination-event-eq": dict(prop="C04", origin="independent sub-agent",
    change="connect_edges: the early contour termination compares sweep events (contour id, operand, left flag, point) instead of points",
    needs="two result contours from different input rings that share their leftmost-lowest vertex (two wedges opening to the right from a common apex): they come out as one figure-8 ring"),
 "S07-c07-clipping-part-break": dict(prop="C07", origin="independent sub-agent",
    change="fill_queue: clipping parts entirely right of the subject box are skipped for intersection/difference, with `break` instead of `continue`",
    needs="a clipping multipolygon in which a part entirely right of the subject is listed before a part that interacts with it"),
 "S08-c03-prev-in-result-rc-chain": dict(prop="C03", origin="independent sub-agent (patch re-created verbatim from its report)",
    change="SweepEvent: prev_in_result is an owning Option<Rc<..>> instead of a Weak",
    needs="a stacked input of >= 150 000 parts whose prev_in_result links form one chain: the chain is freed recursively at the end of the call and overflows the stack"),
 "S09-c05-vertical-event-vertical-prev": dict(prop="C05", origin="independent sub-agent",
    change="compute_fields: the compensation for a vertical predecessor of the other polygon is skipped when the event itself is vertical",
    needs="operands sharing a vertical edge, plus a vertex of one operand touching the shared stretch strictly inside it from the right"),
 "S10-revert-F1": dict(prop="C01", origin="own: revert of fix F1", change="revert of the fix for the result transition of coincident edges",
    needs="a contour whose nearest lower result edge is an edge shared by both operands (4.2 % of the 3x3-grid unions)"),
 "S11-revert-F2": dict(prop="C01", origin="own: revert of fix F2", change="revert of the fix for a predecessor that is a vertical segment of the same operand",
    needs="a part or hole of an operand touching a vertical edge of another part of the same operand in a point"),
 "S12-revert-F3": dict(prop="C18", origin="own: revert of fix F3", change="revert of the iterative teardown of the splay tree",
    needs="a tree of height >= 10^5 (monotone insertion) that is cleared, dropped, or whose iterator is dropped half consumed"),
 "S13-c18-drop-nodes-pop-left": dict(prop="C18", origin="independent sub-agent",
    change="drop_nodes: the rotation takes `left.pop_left()` instead of `left.pop_right()`, so the left child's right subtree is freed by the recursive Box drop",
    needs="a teardown that reaches a node whose left child carries a deep right spine (descending insertion, one lookup of a middle key, then drop/clear/partial IntoIter) at ~10^6 keys"),
 "S14-c16-relative-epsilon-parallel": dict(prop="C16", origin="independent sub-agent",
    change="segment_intersection: the parallelism test becomes relative: `sqr_kross > epsilon * |va|^2 * |vb|^2`",
    needs="a proper crossing of two long, almost collinear segments (|cross| <= 1.5e-8 |va||vb|), e.g. (1,1)-(20002,20001) x (0,0)-(20003,20002)"),
 "S15-c14-vertical-prev-in-result-rewrite": dict(prop="C14", origin="independent sub-agent (same defect as S01, written as a refactoring)",
    change="compute_fields: the prev_in_result block is rewritten with a match and loses the `!prev.is_vertical()` condition",
    needs="as S01"),
 "S16-c13-skip-post-removal-check-same-ring": dict(prop="C13", origin="independent sub-agent",
    change="subdivide: after a segment leaves the sweep line its new neighbours are only tested if (contour_id, is_exterior_ring) differ",
    needs="difference only: a clipping edge that was split earlier (its remainder is flagged exterior and shares the subject's contour id) crossed by a subject edge, the two becoming neighbours only when a separating segment ends"),
 "S17-c01-skip-post-removal-check-same-ring": dict(prop="C01", origin="independent sub-agent (same change as S16, found independently)",
    change="as S16", needs="as S16; ~0.1 % of small random difference inputs"),
 "S18-c15-horizontal-tie-not-antisymmetric": dict(prop="C15", origin="independent sub-agent",
    change="Ord for SweepEvent: a sign shortcut `dy1*dy2 <= 0` before the orientation test also catches two exactly horizontal edges",
    needs="a subject and a clipping edge that are both horizontal and share their left (two left events) or right end point: cmp returns Greater in both directions; Boolean results are unchanged"),
 "S19-c10-f32-determinant-fast-path": dict(prop="C10", origin="independent sub-agent",
    change="signed_area: a fast path returns the plain determinant computed in the coordinate type when it passes the double-precision filter bound",
    needs="f32 only: three points collinear to within one f32 ulp with coordinate differences that are inexact in f32"),
 "S20-c11-dedupe-revisited-ring-vertices": dict(prop="C11", origin="independent sub-agent (patch rebased onto the second hook commit)",
    change="fill_queue: every input ring is 'sanitised' by dropping vertices it has already visited (except repeats of its first vertex)",
    needs="an operand that is a RESULT of a previous operation whose ring passes twice through a vertex (hole or notch touching the boundary, traced inline); freshly written simple rings are unaffected"),
 "S21-c17-next-absent-key-fast-path": dict(prop="C17", origin="independent sub-agent",
    change="SplayTree::next: returns None at once when the root has no right subtree after splaying",
    needs="next(k) for a key that is NOT stored whose successor is the maximum and ends up at the root (depends on the insertion history)"),
 "S22-c12-static-mutex-processed-bitmap": dict(prop="C12", origin="independent sub-agent",
    change="connect_edges: the per-call `processed` set becomes a process-wide static Mutex<Vec<bool>> locked per single access",
    needs="two threads inside connect_edges at the same time (a particular interleaving); every single-threaded history stays correct"),
 "S23-c09-skip-left-clipping-edges-difference": dict(prop="C09", origin="independent sub-agent",
    change="subdivide: for difference, clipping edges that end left of the subject's box are skipped",
    needs="difference with a clipping polygon that reaches left of the subject's box with an asymmetric left end and passes beneath the subject; a far-left subject part switches the skip off"),
 "S24-c15-compare-segments-horizontal-fast-path": dict(prop="C15", origin="independent sub-agent",
    change="compare_segments: fast paths for axis-parallel segments; the one for a horizontal reference segment ignores the tie where the new segment starts exactly on it",
    needs="a horizontal segment and a second, rising, non-vertical segment whose left end lies on it (not at its left end) — a T-junction that exists only before subdivision"),
 "S25-c03-debug-assert-contour-closed": dict(prop="C03", origin="independent sub-agent",
    change="connect_edges: the commented-out debug_assert_eq!(first point, last point) of a contour is enabled",
    needs="debug-assertion builds only: a valid input whose computed intersection points round away from a T-junction vertex so that a contour walk dead-ends"),
 "S26-c02-skip-recompute-upper-overlap": dict(prop="C02", origin="independent sub-agent",
    change="subdivide: after an overlap with the upper neighbour the fields of the event are only recomputed if it is in the result",
    needs="intersection: a clipping edge starting in the interior of a collinear subject edge, both operands on the same side, and a result ring whose lowest-left vertex is directly above the shared piece"),
 "S28-c16-vertical-overlap-order-by-x": dict(prop="C16", origin="independent sub-agent",
    change="possible_intersection: in the overlap branch the two left end points are ordered by x only instead of by the event order",
    needs="a subject and a clipping segment overlapping collinearly on a VERTICAL line with different lower end points, the first argument starting higher: the wrong segment is divided, at a point outside its box"),
 "S29-c10-f32-nextafter-bitstep": dict(prop="C10", origin="independent sub-agent",
    change="NextAfter for f32 steps the raw bit pattern (+1/-1) instead of calling float_next_after",
    needs="f32 only, negative x: the one-ulp bump of a division point (corner case 1 of divide_segment) then moves left instead of right"),
 "S30-c18-recursive-successor": dict(prop="C18", origin="independent sub-agent",
    change="SplayTree::next / prev: the iterative descent is replaced by recursive helpers `successor` / `predecessor`",
    needs="a list-shaped tree of ~10^6 keys (monotone insertion) and a neighbour query at its deep end; or a comb polygon with 2*10^5 teeth in a Boolean operation"),
 "S31-c14-noncontributing-twin-prev-in-result": dict(prop="C14", origin="independent sub-agent",
    change="compute_fields: a non-contributing coincident twin takes its partner's prev_in_result instead of the partner",
    needs="an edge shared by both operands whose typed twin is in the result, and a further ring whose leftmost vertex has that pair as nearest edges below"),
 "S32-c13-collapsed-edge-skip-dead": dict(prop="C13", origin="independent sub-agent",
    change="fill_queue: the skip of collapsed edges is rewritten to test `e1.cmp(&e2) == Equal`, which Ord for SweepEvent never returns",
    needs="an operand ring with a repeated consecutive vertex (mid-ring, doubled closing point, or in a hole)"),
 "S33-c01-difference-subject-transition-mirror": dict(prop="C01", origin="independent sub-agent",
    change="determine_result_transition: for difference a subject edge gets the negated clipping formula instead of `this_in && !that_in`",
    needs="difference whose result has vertically stacked pieces (a piece whose lowest-left vertex has a top edge of the subject directly below it): the upper piece is attached as a hole and vanishes"),
 "S34-c05-difference-subject-transition-or": dict(prop="C05", origin="independent sub-agent (same defect class as S33, different formula)",
    change="determine_result_transition: subject branch of difference becomes `this_in || !that_in`",
    needs="difference with a multi-part subject whose parts are stacked, or an island in a hole of the subject"),
 "S35-c11-overlap-split-skipped-same-contour-id": dict(prop="C11", origin="independent sub-agent",
    change="possible_intersection: in the shared-left-end overlap branch the longer edge is only split if the contour ids differ (clipping polygons of a difference share the last subject polygon's id)",
    needs="difference with a subject edge and a clipping edge that are collinear, start at the same point and differ in length, the shorter one continued from below — e.g. (A union B) minus A"),
 "S36-c04-skip-lower-neighbour-test-for-vertical": dict(prop="C04", origin="independent sub-agent",
    change="subdivide: a vertical segment entering the sweep line is not tested against a non-vertical lower neighbour",
    needs="the lower end of a vertical edge of one operand lying on a non-vertical edge of the other, one of the edges meeting there having been split earlier at a non-representable point (small integer lattice, arbitrary slopes)"),
 "S37-c08-difference-subject-transition-negation": dict(prop="C08", origin="independent sub-agent (same change as S33/S34, found a third time; its demo shows the transposition asymmetry)",
    change="as S33", needs="as S33; after transposing the axes the pieces lie side by side and the result is correct, so the result does not commute with the transposition"),
 "S38-c17-next-back-forgets-remaining": dict(prop="C17", origin="independent sub-agent",
    change="IntoIter::next_back no longer decrements `remaining`",
    needs="size_hint()/len() of the consuming iterator read after at least one next_back(); elements and order stay right"),
 "S39-c12-generic-static-unit-roundoff": dict(prop="C12", origin="independent sub-agent (re-created from its report; demo geometry mine)",
    change="segment_intersection: crossing parameters within one unit roundoff of 1 are snapped to 1; the roundoff is cached in a thread_local static inside the generic function, i.e. shared by the f32 and f64 instantiations",
    needs="a history on one thread: first an f32 call with a real crossing, then an f64 call with a crossing about 5e-8 (relative) before a segment's end point"),
 "S40-c05-prev-in-result-only-normal-edges": dict(prop="C05", origin="independent sub-agent",
    change="compute_fields: prev becomes prev_in_result only if its edge type is Normal",
    needs="operands sharing part of an edge that is in the result, and a result hole or nested contour directly above the shared edge (xor unaffected)"),
 "S41-c09-trivial-result-swapped-when-clipping-left": dict(prop="C09", origin="independent sub-agent",
    change="boolean_operation: the bounding-box shortcut calls trivial_result(clipping, subject) when the clipping box starts further left",
    needs="difference with disjoint boxes and a clipping operand that starts left of the subject (e.g. a far-left clipping part)"),
 "S42-c07-naive-collinearity-in-event-order": dict(prop="C07", origin="independent sub-agent",
    change="Ord for SweepEvent: the exact collinearity test is replaced by a naive floating-point cross product",
    needs="a needle-shaped vertex thinner than float precision at its scale (e.g. (0,0),(2^27,2^27-1),(2^27+1,2^27)) and a ring start/direction for which the heap pops the upper edge first"),
 "S43-c13-overlap-endpoint-order-descending": dict(prop="C13", origin="independent sub-agent",
    change="possible_intersection: the end points of a collinear overlap are ordered by `a.x > b.x || a.y > b.y` instead of by the event order",
    needs="edges of the two operands overlapping along a line of NEGATIVE slope without sharing both end points"),
 "S44-c02-noncontributing-unset-prev-in-result": dict(prop="C02", origin="independent sub-agent",
    change="compute_fields: a NonContributing event gets its prev_in_result unset",
    needs="operands sharing a boundary segment and a result ring that must be a hole looking straight down onto that segment"),
 "S45-c03-recursive-get-next-pos": dict(prop="C03", origin="independent sub-agent",
    change="connect_edges: get_next_pos becomes self-recursive (one stack frame per processed event it steps over at a vertex)",
    needs="one vertex where very many result edges meet: e.g. 150 000 disjoint triangles touching only in the origin, united with a small triangle at the origin"),
 "S46-c06-bbox-disjointness-by-width-sums": dict(prop="C06", origin="independent sub-agent",
    change="boolean_operation: the disjointness test of the boxes compares the hull's width/height with the sum of the operands' widths/heights",
    needs="bounding boxes that touch exactly, with non-dyadic coordinates for which the sum of the two widths rounds one ulp below the hull width (about 3 % of one-decimal triples, e.g. 0, 0.2, 0.9): union/xor of the touching rectangles come back unmerged"),
 "S47-c18-recursive-join-in-remove": dict(prop="C18", origin="independent sub-agent",
    change="SplayTree::remove joins the two subtrees with a recursive helper (one frame per node of the left subtree's right spine)",
    needs="a descending chain of >= 5*10^4 keys (2 MiB stack) or 3*10^6 keys (8 MiB) and the removal of a key near the maximum"),
 "S48-c14-vertical-event-vertical-prev-other": dict(prop="C14", origin="independent sub-agent (same change as S09, found again twice in round 5)",
    change="as S09", needs="as S09"),
 "S50-c16-same-operand-t-contact-skipped": dict(prop="C16", origin="independent sub-agent",
    change="possible_intersection: for two segments of the same operand a meeting point that is an end point of either segment is reported as no intersection",
    needs="a T contact (end point of one segment in the interior of the other) between two segments of the SAME operand, e.g. two parts of a multipolygon touching in a vertex of one on an edge of the other"),
 "S51-c04-same-operand-endpoint-contact-skipped": dict(prop="C04", origin="independent sub-agent (same idea as S50, restricted differently)",
    change="possible_intersection: a new match arm returns 0 for two segments of the same operand meeting in an end point of one of them",
    needs="an operand with a ring vertex in the interior of another of its own edges (hole touching its shell, parts touching vertex-on-edge) and an edge of the other operand overlapping that edge across the touch point or passing through it"),
 "S52-c11-collinear-order-by-contour-id": dict(prop="C11", origin="independent sub-agent",
    change="compare_segments: collinear segments of different operands are ordered by contour_id instead of subject-first (contour ids tie for the clipping polygons of a difference)",
    needs="difference in which a collinear edge of the last subject polygon starts strictly inside a clipping edge already in the sweep line: the single result is the right region plus a zero-area spike, which derails the next operation it is fed into"),
 "S27-c06-empty-clipping-early-return": dict(prop="C06", origin="independent sub-agent",
    change="boolean_operation: early return of the subject when the clipping operand has no polygons, regardless of the operation",
    needs="intersection with an empty MultiPolygon on the right-hand side"),
}

def main():
    props = [json.loads(l)["id"] for l in open("/verif/properties.jsonl")]
    rows = []
    for sid in sorted(os.listdir("/verif/seeded")):
        d = f"/verif/seeded/{sid}"
        if not os.path.isdir(d) or sid not in SEEDS:
            continue
        meta = dict(id=sid, breaks_property=SEEDS[sid]["prop"], origin=SEEDS[sid]["origin"], change=SEEDS[sid]["change"],
                    needs_to_manifest=SEEDS[sid]["needs"], files=sorted(os.listdir(d)))
        c = os.path.join(d, "confirmation.txt")
        meta["confirmed_by_me"] = open(c).read().strip().splitlines() if os.path.exists(c) else \
            ["own mutant (revert of a fix commit): the fix commit's test-suite run is the 'passes the 45 tests' evidence; detection below"]
        det = {}
        t = os.path.join(d, "detection.txt")
        if os.path.exists(t):
            for line in open(t):
                m = re.match(r"(\S+) (C\d+) (\w+) (CAUGHT|MISSED|MACHINERY)(.*)", line)
                if m:
                    det[m.group(2)] = m.group(4) if m.group(4) != "CAUGHT" else "CAUGHT" + (": " + m.group(5).split("clause=")[1][:90] if "clause=" in m.group(5) else "")
            meta["what_i_ran"] = "tools/run_seeded.sh %s quick <all 18 properties>: git -C /repo apply patch.diff; ./check <P> quick; git -C /repo checkout -- ." % sid
        meta["detection_quick"] = det
        json.dump(meta, open(os.path.join(d, "meta.json"), "w"), indent=1)
        rows.append((sid, SEEDS[sid]["prop"], det))
    out = ["# Seeded changes: which quick checks report them", "",
           "Generated by tools/mk_seed_meta.py from seeded/<id>/detection.txt (tools/seed_matrix.sh: apply the patch to /repo, run all 18",
           "quick checks, undo). CAUGHT = exit 1 with a VIOLATION line; a *machinery exit* (exit 2) is listed separately: it happens when",
           "the change makes results history dependent (violations do not reproduce on replay) or makes a call hang (watchdog) — both are",
           "symptoms, but only exit 1 counts as detection.", "",
           "| seed | target | what it needs to manifest | caught by (quick tier) | machinery exits | target check |", "|---|---|---|---|---|---|"]
    for sid, p, det in rows:
        caught = [k for k in props if det.get(k, "").startswith("CAUGHT")]
        mach = [k for k in props if det.get(k, "") == "MACHINERY"]
        verdict = "caught" if p in caught else ("not run yet" if not det else "**missed**")
        out.append(f"| {sid} | {p} | {SEEDS[sid]['needs'].replace('|', '/')} | {' '.join(caught) or '-'} | {' '.join(mach) or '-'} | {verdict} |")
    open("/verif/seeded/RESULTS.md", "w").write("\n".join(out) + "\n")
    print("\n".join(out[8:]))

if __name__ == "__main__":
    main()
