#!/bin/bash
# run_seeded.sh <seed-id> <tier> <prop> [<prop>...] : apply /verif/seeded/<id>/patch.diff to /repo, run the checks, undo.
# Prints one line per property: CAUGHT / MISSED / MACHINERY. Evidence written during these runs is discarded.
set -u
ID=$1; TIER=$2; shift 2
cd /verif
if [ -n "$(git -C /repo status --porcelain)" ]; then echo "/repo not clean"; exit 2; fi
git -C /repo apply /verif/seeded/$ID/patch.diff || { echo "patch does not apply"; exit 2; }
export VERIF_EVIDENCE_DIR=/tmp/seeded-evidence
trap 'git -C /repo checkout -- . ; rm -rf /tmp/seeded-evidence' EXIT
for P in "$@"; do
    out=$(./check $P $TIER 2>&1); rc=$?
    n=$(echo "$out" | grep -c "^VIOLATION")
    first=$(echo "$out" | grep "^VIOLATION" | head -1 | cut -c1-220)
    case $rc in
      0) echo "$ID $P $TIER MISSED" ;;
      1) echo "$ID $P $TIER CAUGHT violations_printed=$n first: $first" ;;
      *) echo "$ID $P $TIER MACHINERY rc=$rc: $(echo "$out" | grep MACHINERY | head -2)" ;;
    esac
done
