//! Counters, violation bookkeeping, known findings, evidence and replay files.
use serde_json::{json, Map, Value};
use std::collections::BTreeMap;
use std::sync::atomic::{AtomicU64, Ordering};
use std::sync::Mutex;

pub const VERIF_DIR: &str = "/verif";

#[derive(Clone, Debug)]
pub struct Violation {
    pub clause: String,
    /// replayable description of the case (must contain "prop" and everything `replay` needs)
    pub case: Value,
    /// stable identity of the failing input, used to match known findings
    pub key: String,
}

pub struct Stats {
    pub prop: String,
    pub tier: String,
    pub seed: u64,
    pub t0: std::time::Instant,
    pub states: AtomicU64,
    pub transitions: AtomicU64,
    pub nontrivial: AtomicU64,
    pub counters: Mutex<BTreeMap<String, u64>>,
    pub maxima: Mutex<BTreeMap<String, f64>>,
    pub viol: Mutex<Vec<Violation>>,
    pub viol_total: AtomicU64,
    pub samples: Mutex<Vec<Value>>,
    pub families: Mutex<Vec<String>>,
    pub notes: Mutex<Vec<String>>,
    pub caps: Mutex<Vec<String>>,
}

pub const MAX_KEPT: usize = 200_000;

impl Stats {
    pub fn new(prop: &str, tier: &str) -> Stats {
        let seed = std::env::var("VERIF_SEED")
            .ok()
            .and_then(|s| s.parse().ok())
            .unwrap_or(1);
        Stats {
            prop: prop.into(),
            tier: tier.into(),
            seed,
            t0: std::time::Instant::now(),
            states: AtomicU64::new(0),
            transitions: AtomicU64::new(0),
            nontrivial: AtomicU64::new(0),
            counters: Mutex::new(BTreeMap::new()),
            maxima: Mutex::new(BTreeMap::new()),
            viol: Mutex::new(vec![]),
            viol_total: AtomicU64::new(0),
            samples: Mutex::new(vec![]),
            families: Mutex::new(vec![]),
            notes: Mutex::new(vec![]),
            caps: Mutex::new(vec![]),
        }
    }
    pub fn state(&self, nontrivial: bool) {
        self.states.fetch_add(1, Ordering::Relaxed);
        if nontrivial {
            self.nontrivial.fetch_add(1, Ordering::Relaxed);
        }
    }
    pub fn trans(&self, n: u64) {
        self.transitions.fetch_add(n, Ordering::Relaxed);
    }
    pub fn add(&self, name: &str, n: u64) {
        if n > 0 {
            *self
                .counters
                .lock()
                .unwrap()
                .entry(name.into())
                .or_default() += n;
        }
    }
    pub fn merge(&self, local: &Local) {
        self.states.fetch_add(local.states, Ordering::Relaxed);
        self.nontrivial
            .fetch_add(local.nontrivial, Ordering::Relaxed);
        self.transitions
            .fetch_add(local.transitions, Ordering::Relaxed);
        {
            let mut c = self.counters.lock().unwrap();
            for (k, v) in &local.counters {
                *c.entry(k.to_string()).or_default() += v;
            }
        }
        {
            let mut m = self.maxima.lock().unwrap();
            for (k, v) in &local.maxima {
                let e = m.entry(k.to_string()).or_insert(f64::NEG_INFINITY);
                if *v > *e {
                    *e = *v;
                }
            }
        }
        if !local.viol.is_empty() {
            self.viol_total
                .fetch_add(local.viol.len() as u64, Ordering::Relaxed);
            let mut v = self.viol.lock().unwrap();
            for x in &local.viol {
                if v.len() < MAX_KEPT {
                    v.push(x.clone());
                }
            }
        }
    }
    pub fn max(&self, name: &str, v: f64) {
        let mut m = self.maxima.lock().unwrap();
        let e = m.entry(name.into()).or_insert(f64::NEG_INFINITY);
        if v > *e {
            *e = v;
        }
    }
    pub fn violation(&self, clause: &str, key: String, case: Value) {
        self.viol_total.fetch_add(1, Ordering::Relaxed);
        let mut v = self.viol.lock().unwrap();
        if v.len() < MAX_KEPT {
            v.push(Violation {
                clause: clause.into(),
                case,
                key,
            });
        }
    }
    pub fn sample(&self, v: Value) {
        let mut s = self.samples.lock().unwrap();
        if s.len() < 4 {
            s.push(v);
        }
    }
    pub fn family(&self, f: &str) {
        self.families.lock().unwrap().push(f.into());
    }
    pub fn note(&self, f: &str) {
        self.notes.lock().unwrap().push(f.into());
    }
    pub fn cap(&self, f: &str) {
        self.caps.lock().unwrap().push(f.into());
    }
}

/// thread-local accumulator, merged into `Stats` once per outer iteration
#[derive(Default)]
pub struct Local {
    pub states: u64,
    pub nontrivial: u64,
    pub transitions: u64,
    pub counters: BTreeMap<&'static str, u64>,
    pub maxima: BTreeMap<&'static str, f64>,
    pub viol: Vec<Violation>,
}
impl Local {
    pub fn add(&mut self, k: &'static str, n: u64) {
        *self.counters.entry(k).or_default() += n;
    }
    pub fn max(&mut self, k: &'static str, v: f64) {
        let e = self.maxima.entry(k).or_insert(f64::NEG_INFINITY);
        if v > *e {
            *e = v;
        }
    }
    pub fn violation(&mut self, clause: &str, key: String, case: Value) {
        self.viol.push(Violation {
            clause: clause.into(),
            case,
            key,
        });
    }
}

// ------------------------------------------------------------------------------------------------
// known findings
// ------------------------------------------------------------------------------------------------

pub struct Known {
    /// (property, key) -> (what, clauses that are known to fail on this input; empty = any clause)
    pub known: BTreeMap<(String, String), (String, Vec<String>)>,
    pub fixed: Vec<Value>,
}

pub fn load_known() -> Known {
    let path = format!("{VERIF_DIR}/known_findings.jsonl");
    let mut k = Known {
        known: BTreeMap::new(),
        fixed: vec![],
    };
    if let Ok(s) = std::fs::read_to_string(&path) {
        for line in s.lines() {
            let line = line.trim();
            if line.is_empty() || line.starts_with('#') || line.starts_with("fixed:") {
                continue;
            }
            let v: Value = match serde_json::from_str(line) {
                Ok(v) => v,
                Err(e) => {
                    eprintln!("MACHINERY: known_findings.jsonl unparsable line: {e}");
                    std::process::exit(2);
                }
            };
            match v["status"].as_str() {
                Some("known") => {
                    k.known.insert(
                        (
                            v["property"].as_str().unwrap_or("").into(),
                            v["key"].as_str().unwrap_or("").into(),
                        ),
                        (
                            v["what"].as_str().unwrap_or("").into(),
                            v["clauses"].as_array().map(|a| a.iter().filter_map(|c| c.as_str().map(|s| s.to_string())).collect()).unwrap_or_default(),
                        ),
                    );
                }
                _ => k.fixed.push(v),
            }
        }
    }
    k
}

// ------------------------------------------------------------------------------------------------
// finishing a run: verdict lines, replay files, evidence
// ------------------------------------------------------------------------------------------------

fn fnv(s: &str) -> u64 {
    let mut h: u64 = 0xcbf29ce484222325;
    for b in s.bytes() {
        h ^= b as u64;
        h = h.wrapping_mul(0x100000001b3);
    }
    h
}

pub type ReplayFn = dyn Fn(&Value) -> Vec<String>;

/// Writes evidence, prints verdict lines and returns the exit code (0 held, 1 violation, 2 machinery).
pub fn finish(
    st: &Stats,
    rule: &str,
    assumptions: &[&str],
    exhaustive: bool,
    replay: Option<&ReplayFn>,
) -> i32 {
    let known = load_known();
    let viol = st.viol.lock().unwrap();
    let total = st.viol_total.load(Ordering::Relaxed);
    let mut known_hit: BTreeMap<String, (String, u64)> = BTreeMap::new();
    let mut unlisted: Vec<&Violation> = vec![];
    for v in viol.iter() {
        // a listed input suppresses exactly the clauses recorded for it: a different failure of the same
        // property on the same input is still reported
        match known.known.get(&(st.prop.clone(), v.key.clone())) {
            Some((what, clauses)) if clauses.is_empty() || clauses.iter().any(|c| c == &v.clause) => {
                let e = known_hit.entry(v.key.clone()).or_insert((what.clone(), 0));
                e.1 += 1;
            }
            _ => unlisted.push(v),
        }
    }
    for (k, (what, _)) in &known_hit {
        println!("KNOWN-FINDING: property={} {} [{}]", st.prop, what, k);
    }
    // candidate lines for known_findings.jsonl (never written by a check; only on explicit request)
    if let Ok(path) = std::env::var("VERIF_EMIT_CANDIDATES") {
        use std::io::Write;
        let mut seen: std::collections::BTreeMap<String, (Vec<String>, Value)> = Default::default();
        for v in &unlisted {
            seen.entry(v.key.clone())
                .or_insert((vec![], v.case.clone()))
                .0
                .push(v.clause.clone());
        }
        let mut f = std::fs::OpenOptions::new()
            .create(true)
            .append(true)
            .open(&path)
            .expect("candidates file");
        for (k, (cls, case)) in seen {
            let mut cls = cls;
            cls.sort();
            cls.dedup();
            writeln!(f, "{}", json!({"status": "known", "property": st.prop, "key": k, "clauses": cls, "case": case})).unwrap();
        }
    }
    let mut code = 0;
    let dropped = total as usize - viol.len();
    let mut printed = 0;
    let mut by_clause: BTreeMap<String, u64> = BTreeMap::new();
    let mut seen_keys: std::collections::BTreeSet<String> = Default::default();
    for v in &unlisted {
        *by_clause.entry(v.clause.clone()).or_default() += 1;
        if !seen_keys.insert(format!("{}|{}", v.key, v.clause)) {
            continue;
        }
        if printed >= 25 {
            continue;
        }
        // reproduce twice before reporting
        if let Some(rp) = replay {
            for round in 0..2 {
                let got = rp(&v.case);
                if !got.iter().any(|c| c == &v.clause) {
                    println!(
                        "MACHINERY: violation did not reproduce on replay round {round}: clause={} key={} got={:?}",
                        v.clause, v.key, got
                    );
                    write_evidence(
                        st,
                        rule,
                        assumptions,
                        false,
                        total,
                        &known_hit,
                        &by_clause,
                        Some("non-reproducible violation"),
                    );
                    return 2;
                }
            }
        }
        let mut case = v.case.clone();
        if let Some(o) = case.as_object_mut() {
            o.insert("clause".into(), json!(v.clause));
            o.insert("key".into(), json!(v.key));
            o.insert("flavour".into(), json!(crate::run::flavour()));
        }
        let name = format!(
            "{}-{:016x}.json",
            st.prop,
            fnv(&format!("{}|{}|{}", v.key, v.clause, crate::run::flavour()))
        );
        let path = format!("{VERIF_DIR}/replays/{name}");
        let _ = std::fs::create_dir_all(format!("{VERIF_DIR}/replays"));
        if let Err(e) = std::fs::write(&path, serde_json::to_string_pretty(&case).unwrap()) {
            println!("MACHINERY: cannot write replay file {path}: {e}");
            return 2;
        }
        println!(
            "VIOLATION property={} replay={} clause={} key={}",
            st.prop, path, v.clause, v.key
        );
        printed += 1;
        code = 1;
    }
    if !unlisted.is_empty() {
        code = 1;
        println!(
            "SUMMARY property={} unlisted_violations={} (distinct cases printed: {}, not kept: {}) by clause: {:?}",
            st.prop,
            unlisted.len(),
            printed,
            dropped,
            by_clause
        );
    } else if dropped > 0 {
        code = 1;
    }
    write_evidence(
        st,
        rule,
        assumptions,
        exhaustive,
        total,
        &known_hit,
        &by_clause,
        None,
    );
    if code == 0 {
        println!(
            "OK property={} tier={} flavour={} states={} transitions={} known_findings_hit={} wall_s={:.1}",
            st.prop,
            st.tier,
            crate::run::flavour(),
            st.states.load(Ordering::Relaxed),
            st.transitions.load(Ordering::Relaxed),
            known_hit.len(),
            st.t0.elapsed().as_secs_f64()
        );
    }
    code
}

#[allow(clippy::too_many_arguments)]
fn write_evidence(
    st: &Stats,
    rule: &str,
    assumptions: &[&str],
    exhaustive: bool,
    total_viol: u64,
    known_hit: &BTreeMap<String, (String, u64)>,
    by_clause: &BTreeMap<String, u64>,
    machinery: Option<&str>,
) {
    let states = st.states.load(Ordering::Relaxed);
    let transitions = st.transitions.load(Ordering::Relaxed);
    let mut cov = Map::new();
    cov.insert("states".into(), json!(states));
    cov.insert("transitions".into(), json!(transitions));
    cov.insert("traces_validated_against_impl".into(), json!(transitions));
    cov.insert("evaluations".into(), json!(transitions));
    cov.insert(
        "distinct_nontrivial".into(),
        json!(st.nontrivial.load(Ordering::Relaxed)),
    );
    cov.insert("rule".into(), json!(rule));
    cov.insert(
        "exhaustive".into(),
        json!(exhaustive && st.caps.lock().unwrap().is_empty()),
    );
    cov.insert("families".into(), json!(*st.families.lock().unwrap()));
    cov.insert("samples".into(), json!(*st.samples.lock().unwrap()));
    cov.insert("counters".into(), json!(*st.counters.lock().unwrap()));
    cov.insert("maxima".into(), json!(*st.maxima.lock().unwrap()));
    cov.insert("caps_hit".into(), json!(*st.caps.lock().unwrap()));
    cov.insert("notes".into(), json!(*st.notes.lock().unwrap()));
    cov.insert("build_flavour".into(), json!(crate::run::flavour()));
    cov.insert(
        "known_findings_hit".into(),
        json!(known_hit
            .iter()
            .map(|(k, (w, n))| json!({"key": k, "what": w, "clauses_failing": n}))
            .collect::<Vec<_>>()),
    );
    cov.insert("unlisted_violations_by_clause".into(), json!(by_clause));
    if let Some(m) = machinery {
        cov.insert("machinery_error".into(), json!(m));
    }
    let unlisted: u64 = by_clause.values().sum();
    let ev = json!({
        "property_id": st.prop,
        "tier": st.tier,
        "seed": st.seed,
        "level": "model_checking",
        "coverage": Value::Object(cov),
        "assumptions": assumptions,
        "wall_s": st.t0.elapsed().as_secs_f64(),
        "violations": unlisted,
        "violations_including_known": total_viol,
    });
    let dir =
        std::env::var("VERIF_EVIDENCE_DIR").unwrap_or_else(|_| format!("{VERIF_DIR}/evidence"));
    let _ = std::fs::create_dir_all(&dir);
    let suffix = std::env::var("VERIF_EVIDENCE_SUFFIX").unwrap_or_default();
    let path = format!("{dir}/{}{}.json", st.prop, suffix);
    if let Err(e) = std::fs::write(&path, serde_json::to_string_pretty(&ev).unwrap()) {
        eprintln!("MACHINERY: cannot write evidence {path}: {e}");
        std::process::exit(2);
    }
}
