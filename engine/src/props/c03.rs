//! C03: every call on valid input returns (no panic, abort, runaway loop, stack overflow), with a
//! quadratic bound on the number of sweep events; both float types; this binary's build flavour
//! (the wrapper runs the release and the debug-assertions binary and merges the evidence).
use super::base::*;
use crate::complex::*;
use crate::geom::*;
use crate::run::*;
use crate::stats::*;
use geo_types::{LineString, MultiPolygon, Polygon};
use rayon::prelude::*;
use serde_json::{json, Value};
use std::process::Command;

// ------------------------------------------------------------------------------------------------
// degenerate encodings named by the property
// ------------------------------------------------------------------------------------------------

pub const DEGEN: [&str; 7] = [
    "empty-multipolygon",
    "polygon-with-empty-exterior",
    "empty-interior-ring",
    "repeated-vertices",
    "empty-part-first",
    "empty-part-last",
    "all-rings-doubled-vertices",
];

pub fn degen_variant(mp: &MP, kind: &str) -> MP {
    let empty_poly = || Polygon::new(LineString::<f64>(vec![]), vec![]);
    match kind {
        "empty-multipolygon" => MultiPolygon(vec![]),
        "polygon-with-empty-exterior" => MultiPolygon(vec![empty_poly()]),
        "empty-interior-ring" => MultiPolygon(
            mp.0.iter()
                .map(|p| {
                    let mut h = p.interiors().to_vec();
                    h.insert(0, LineString(vec![]));
                    Polygon::new(p.exterior().clone(), h)
                })
                .collect(),
        ),
        "repeated-vertices" => MultiPolygon(
            mp.0.iter()
                .map(|p| {
                    let dup = |r: &LineString<f64>| {
                        let mut v = r.0.clone();
                        if v.len() > 2 {
                            let x = v[1];
                            v.insert(1, x);
                            let l = v[v.len() - 1];
                            v.push(l);
                        }
                        LineString(v)
                    };
                    Polygon::new(dup(p.exterior()), p.interiors().iter().map(dup).collect())
                })
                .collect(),
        ),
        "all-rings-doubled-vertices" => MultiPolygon(
            mp.0.iter()
                .map(|p| {
                    let dup = |r: &LineString<f64>| {
                        LineString(r.0.iter().flat_map(|c| [*c, *c]).collect())
                    };
                    Polygon::new(dup(p.exterior()), p.interiors().iter().map(dup).collect())
                })
                .collect(),
        ),
        "empty-part-first" => {
            let mut v = vec![empty_poly()];
            v.extend(mp.0.iter().cloned());
            MultiPolygon(v)
        }
        "empty-part-last" => {
            let mut v = mp.0.clone();
            v.push(empty_poly());
            MultiPolygon(v)
        }
        _ => panic!("unknown degenerate variant {kind}"),
    }
}

fn degen_case(
    fam: &Family,
    a: u32,
    b: u32,
    kind: &str,
    side: u8,
    ft: Ft,
    loc: &mut Local,
) -> Vec<String> {
    let (pa, pb) = (&fam.m[a as usize], &fam.m[b as usize]);
    let va = if side & 1 != 0 {
        degen_variant(pa, kind)
    } else {
        pa.clone()
    };
    let vb = if side & 2 != 0 {
        degen_variant(pb, kind)
    } else {
        pb.clone()
    };
    let n = n_edges(&va, &vb);
    let mut cl = vec![];
    for op in OPS {
        let o = call_full(&va, &vb, op, ft, Pairing::MM);
        loc.transitions += 1;
        match o.res {
            Err(msg) => {
                loc.add("panics", 1);
                cl.push(format!(
                    "C03 panic {}: {}",
                    op_name(op),
                    msg.chars().take(70).collect::<String>()
                ));
            }
            Ok(_) => {
                if o.events > event_bound(n) {
                    cl.push(format!("C03 events-above-bound {}", op_name(op)));
                }
            }
        }
    }
    cl
}

fn sweep_degen(st: &Stats, fam: &Family, ft: Ft) {
    let n = fam.cx.noperands();
    st.family(&format!(
        "{}/degenerate-encodings/{} ({} kinds x 3 sides x {} pairs)",
        fam.cx.name,
        ft.name(),
        DEGEN.len(),
        n as u64 * n as u64
    ));
    (0..n).into_par_iter().for_each(|a| {
        let mut loc = Local::default();
        for b in 0..n {
            for kind in DEGEN {
                for side in 1..=3u8 {
                    loc.states += 1;
                    if fam.nontrivial(a, b) {
                        loc.nontrivial += 1;
                    }
                    for c in degen_case(fam, a, b, kind, side, ft, &mut loc) {
                        let key = finding_key("C03", &format!("{}:degen:{kind}:{side}:{a}:{b}:{}", fam.cx.name, ft.name()), &c);
                        loc.violation(
                            &c,
                            key,
                            json!({"prop": "C03", "kind": "degen", "family": fam.cx.name, "a": a, "b": b, "variant": kind, "side": side, "ft": ft.name()}),
                        );
                    }
                }
            }
        }
        st.merge(&loc);
    });
    st.sample(json!({"family": fam.cx.name, "variant": "empty-interior-ring on both sides", "a": 5, "b": 6,
        "A": hex(&degen_variant(&fam.m[5], "empty-interior-ring")), "B": hex(&degen_variant(&fam.m[6], "empty-interior-ring"))}));
}

// ------------------------------------------------------------------------------------------------
// scale scenarios (each in a child process with the default main-thread stack)
// ------------------------------------------------------------------------------------------------

pub const SCENARIOS: [&str; 6] = [
    "stack-left",
    "stack-right",
    "stack-cover",
    "sawtooth-box",
    "stack-stack",
    "vertex-fan",
];

fn rect(x0: f64, y0: f64, x1: f64, y1: f64) -> Polygon<f64> {
    poly_from(&[(x0, y0), (x1, y0), (x1, y1), (x0, y1)], &[])
}

/// operands with about `edges` edges in total
pub fn scenario_operands(name: &str, edges: usize) -> (MP, MP) {
    let n = (edges / 4).max(1);
    let stack = |x0: f64, x1: f64| {
        MultiPolygon(
            (0..n)
                .map(|i| rect(x0, 2.0 * i as f64, x1, 2.0 * i as f64 + 1.0))
                .collect::<Vec<_>>(),
        )
    };
    let top = 2.0 * n as f64;
    match name {
        "stack-left" => (
            stack(0.0, 10.0),
            MultiPolygon(vec![rect(-1.0, -1.0, 0.5, top + 1.0)]),
        ),
        "stack-right" => (
            stack(0.0, 10.0),
            MultiPolygon(vec![rect(9.5, -1.0, 11.0, top + 1.0)]),
        ),
        "stack-cover" => (
            stack(0.0, 10.0),
            MultiPolygon(vec![rect(-1.0, -1.0, 11.0, top + 1.0)]),
        ),
        "stack-stack" => {
            let m = n / 2;
            let s = |x0: f64, x1: f64, off: f64| {
                MultiPolygon(
                    (0..m.max(1))
                        .map(|i| rect(x0, 2.0 * i as f64 + off, x1, 2.0 * i as f64 + 1.0 + off))
                        .collect::<Vec<_>>(),
                )
            };
            (s(0.0, 10.0, 0.0), s(5.0, 15.0, 0.5))
        }
        "vertex-fan" => {
            // n/3 disjoint triangles that touch only in the origin (a valid multipolygon), against a small
            // triangle with a vertex in the origin: very many result edges meet in one vertex
            let k = (edges / 3).max(1);
            let fan = MultiPolygon((0..k).map(|i| poly_from(&[(0.0, 0.0), (-1.0, 2.0 * i as f64 + 1.0), (-1.0, 2.0 * i as f64)], &[])).collect::<Vec<_>>());
            (fan, MultiPolygon(vec![poly_from(&[(0.0, 0.0), (1.0, 0.0), (1.0, 1.0)], &[])]))
        }
        "sawtooth-box" => {
            // one polygon with n/2 teeth along the top, clipped by a box through the teeth
            let teeth = (edges / 2).max(2);
            let mut pts = vec![(0.0, 0.0), (teeth as f64, 0.0)];
            for i in (0..teeth).rev() {
                pts.push((i as f64 + 1.0, 1.0));
                pts.push((i as f64 + 0.5, 2.0));
            }
            pts.push((0.0, 1.0));
            (
                MultiPolygon(vec![poly_from(&pts, &[])]),
                MultiPolygon(vec![rect(-1.0, 1.5, teeth as f64 + 1.0, 3.0)]),
            )
        }
        _ => panic!("unknown scenario {name}"),
    }
}

/// child process entry: run one scenario on the main thread, print a summary line
pub fn scenario_child(name: &str, edges: usize, op: &str, ft: &str) -> i32 {
    use geo_booleanop::boolean::BooleanOp;
    let (a, b) = scenario_operands(name, edges);
    let op = op_from(op);
    geo_booleanop::verif_hooks::begin_call();
    let n = n_edges(&a, &b);
    geo_booleanop::verif_hooks::set_budget(8 * event_bound(n));
    let t0 = std::time::Instant::now();
    let (polys, verts) = if ft == "f32" {
        let r = to32(&a).boolean(&to32(&b), op);
        (
            r.0.len(),
            r.0.iter().map(|p| p.exterior().0.len()).sum::<usize>(),
        )
    } else {
        let r = a.boolean(&b, op);
        (
            r.0.len(),
            r.0.iter().map(|p| p.exterior().0.len()).sum::<usize>(),
        )
    };
    println!(
        "SCENARIO-OK name={name} edges={n} op={} ft={ft} events={} polygons={polys} exterior_vertices={verts} wall_s={:.2}",
        op_name(op),
        geo_booleanop::verif_hooks::events(),
        t0.elapsed().as_secs_f64()
    );
    0
}

fn run_scenario(
    name: &str,
    edges: usize,
    op: &str,
    ft: &str,
    limit_s: u64,
) -> Result<String, String> {
    let exe = crate::run::child_exe();
    let out = Command::new("timeout")
        .arg(format!("{limit_s}"))
        .arg(exe)
        .args(["--scenario", name, &edges.to_string(), op, ft])
        .output()
        .map_err(|e| format!("spawn failed: {e}"))?;
    let so = String::from_utf8_lossy(&out.stdout).to_string();
    let se = String::from_utf8_lossy(&out.stderr).to_string();
    if out.status.success() && so.contains("SCENARIO-OK") {
        Ok(so
            .lines()
            .find(|l| l.contains("SCENARIO-OK"))
            .unwrap()
            .to_string())
    } else {
        use std::os::unix::process::ExitStatusExt;
        let why = if let Some(sig) = out.status.signal() {
            format!("killed by signal {sig}")
        } else if out.status.code() == Some(124) {
            format!("no return within {limit_s}s")
        } else if se.contains("stack overflow") || out.status.code() == Some(134) {
            "abort (stack overflow)".to_string()
        } else {
            format!("exit status {:?}", out.status.code())
        };
        Err(format!(
            "{why}: {}",
            se.lines()
                .last()
                .unwrap_or("")
                .chars()
                .take(100)
                .collect::<String>()
        ))
    }
}

pub fn scenario_clause(name: &str, edges: usize, op: &str, ft: &str) -> String {
    format!("C03 scenario-does-not-return {name} edges={edges} ft={ft} {op}")
}

fn sweep_scenarios(st: &Stats, sizes: &[usize], limit_s: u64, big_ops_only: bool) {
    let mut jobs = vec![];
    for &sz in sizes {
        for name in SCENARIOS {
            for op in OPS {
                for ft in ["f64", "f32"] {
                    if ft == "f32" && sz > 100_000 {
                        continue; // 2*10^6/4 rectangles are not exactly representable stacks in f32
                    }
                    if big_ops_only && sz >= 1_000_000 && !(op == geo_booleanop::boolean::Operation::Intersection || op == geo_booleanop::boolean::Operation::Union) {
                        continue; // quick tier: the 10^6-edge scenarios for intersection and union only
                    }
                    jobs.push((name, sz, op_name(op), ft));
                }
            }
        }
    }
    st.family(&format!("scale scenarios {:?} x sizes {:?} x 4 operations x f64/f32, one child process each (8 MiB main stack)", SCENARIOS, sizes));
    let results: Vec<_> = jobs
        .par_iter()
        .map(|&(name, sz, op, ft)| (name, sz, op, ft, run_scenario(name, sz, op, ft, limit_s)))
        .collect();
    for (name, sz, op, ft, r) in results {
        st.state(true);
        st.trans(1);
        match r {
            Ok(line) => {
                if sz == *sizes.last().unwrap() && op == "intersection" && ft == "f64" {
                    st.sample(json!({"scenario": line}));
                }
            }
            Err(why) => {
                let c = scenario_clause(name, sz, op, ft);
                st.note(&format!("{c}: {why}"));
                st.violation(
                    &c,
                    format!("scenario:{name}:{sz}:{ft}:{op}:{}", flavour()),
                    json!({"prop": "C03", "kind": "scenario", "name": name, "edges": sz, "op": op, "ft": ft, "limit_s": limit_s}),
                );
            }
        }
    }
}

/// child process: one call on operands given bit-exactly in a replay file
pub fn raw_child(path: &str) -> i32 {
    silence_panics();
    let case: Value = serde_json::from_str(&std::fs::read_to_string(path).expect("replay file")).expect("json");
    let (a, b) = (from_hex_bits(&case["A"]).expect("A"), from_hex_bits(&case["B"]).expect("B"));
    let o = call_full(&a, &b, op_from(case["op"].as_str().unwrap()), ft_from(case["ft"].as_str().unwrap_or("f64")), Pairing::MM);
    match o.res {
        Ok(r) => println!("RAW-OK events={} result={}", o.events, hex(&r)),
        Err(m) => println!("RAW-PANIC {m}"),
    }
    0
}

pub fn replay(case: &Value, verbose: bool) -> Vec<String> {
    if case["kind"] == "raw" {
        // a call that did not return: re-run it in a child process under a time limit
        let path = format!("/tmp/verif-raw-{}.json", std::process::id());
        std::fs::write(&path, serde_json::to_string(case).unwrap()).unwrap();
        let exe = crate::run::child_exe();
        let limit = crate::watch::LIMIT_MS / 1000;
        let out = Command::new("timeout").arg(limit.to_string()).arg(exe).args(["--raw-call", &path]).output();
        let _ = std::fs::remove_file(&path);
        let op = case["op"].as_str().unwrap_or("");
        return match out {
            Ok(o) if o.status.code() == Some(124) => vec![format!("C03 no-return-within-{limit}s {op}")],
            Ok(o) => {
                let so = String::from_utf8_lossy(&o.stdout).to_string();
                if verbose {
                    println!("{}", so.chars().take(400).collect::<String>());
                }
                if so.contains("RAW-PANIC") {
                    vec![format!("C03 panic {op}")]
                } else if !o.status.success() {
                    vec![format!("C03 abort {op}")]
                } else {
                    vec![]
                }
            }
            Err(_) => vec![],
        };
    }
    match case["kind"].as_str().unwrap() {
        "degen" => {
            let fam = family_cached(case["family"].as_str().unwrap());
            let mut loc = Local::default();
            let (a, b) = (
                case["a"].as_u64().unwrap() as u32,
                case["b"].as_u64().unwrap() as u32,
            );
            let kind = case["variant"].as_str().unwrap();
            let side = case["side"].as_u64().unwrap() as u8;
            if verbose {
                println!(
                    "A = {} variant {kind} on side mask {side}",
                    hex(&fam.m[a as usize])
                );
                println!("B = {}", hex(&fam.m[b as usize]));
            }
            degen_case(
                &fam,
                a,
                b,
                kind,
                side,
                ft_from(case["ft"].as_str().unwrap()),
                &mut loc,
            )
        }
        "scenario" => {
            let (name, sz, op, ft) = (
                case["name"].as_str().unwrap(),
                case["edges"].as_u64().unwrap() as usize,
                case["op"].as_str().unwrap(),
                case["ft"].as_str().unwrap(),
            );
            match run_scenario(name, sz, op, ft, case["limit_s"].as_u64().unwrap_or(300)) {
                Ok(l) => {
                    if verbose {
                        println!("{l}");
                    }
                    vec![]
                }
                Err(why) => {
                    if verbose {
                        println!("{why}");
                    }
                    vec![scenario_clause(name, sz, op, ft)]
                }
            }
        }
        _ => super::base::replay(case, verbose),
    }
}

pub fn run(tier: &str) -> i32 {
    let st = Stats::new("C03", tier);
    let want = Want::for_prop("C03");
    silence_panics();
    let thorough = tier == "thorough";
    let seed = st.seed;
    let da = flavour() != "release";
    for name in QUICK_COMPLEX {
        let fam = Family::new(name);
        for enc in [Enc::M, Enc::U] {
            for ft in [Ft::F64, Ft::F32] {
                // quick tier: the U encoding in f32 and (debug-assertions binary) the U encoding at all
                // are left to the thorough tier
                if !thorough && enc == Enc::U && (ft == Ft::F32 || da) {
                    continue;
                }
                sweep_complex(&st, "C03", &fam, enc, ft, &want);
            }
        }
    }
    for name in ["G22", "T22"] {
        let fam = Family::new(name);
        for ft in [Ft::F64, Ft::F32] {
            if !thorough && da && (name == "T22" || ft == Ft::F32) {
                continue;
            }
            sweep_degen(&st, &fam, ft);
        }
    }
    if thorough {
        // release flavour carries the big families; the debug-assertions flavour repeats the quick ones
        if flavour() == "release" {
            for name in THOROUGH_COMPLEX {
                let fam = Family::new(name);
                sweep_complex(&st, "C03", &fam, Enc::M, Ft::F64, &want);
            }
        }
        sweep_degen(&st, &Family::new("G32"), Ft::F64);
        sweep_degen(&st, &Family::new("O21"), Ft::F64);
    }
    sweep_table(
        &st,
        "C03",
        &p_spec(9, seed, 1.0, false),
        Ft::F64,
        &want,
        if thorough {
            PairSet::All
        } else {
            PairSet::WithTriangle
        },
    );
    sweep_table(
        &st,
        "C03",
        &p_spec(9, seed, 1.0, true),
        Ft::F32,
        &want,
        PairSet::WithTriangle,
    );
    sweep_table(
        &st,
        "C03",
        &p_spec(9, seed, 1.1 * 1048576.0, false),
        Ft::F64,
        &want,
        PairSet::TrianglesOnly,
    );
    sweep_table(
        &st,
        "C03",
        &p_spec(9, seed, 1e-3, false),
        Ft::F64,
        &want,
        PairSet::TrianglesOnly,
    );
    if thorough {
        sweep_table(
            &st,
            "C03",
            &p_spec(16, seed, 1.0, false),
            Ft::F64,
            &want,
            PairSet::TrianglesOnly,
        );
    }
    sweep_table(&st, "C03", &l_spec("L2i"), Ft::F64, &want, PairSet::All);
    sweep_table(&st, "C03", &l_spec("L2s"), Ft::F64, &want, PairSet::All);
    if thorough {
        sweep_table(
            &st,
            "C03",
            &l_spec("L2i21"),
            Ft::F64,
            &want,
            PairSet::WithTriangle,
        );
    }
    if thorough {
        sweep_table(&st, "C03", &l_spec("L3i"), Ft::F64, &want, PairSet::All);
    }
    if thorough {
        sweep_scenarios(&st, &[10_000, 100_000, 1_000_000, 3_000_000], 900, false);
    } else if da {
        sweep_scenarios(&st, &[100_000], 120, true);
    } else {
        sweep_scenarios(&st, &[10_000, 100_000, 1_000_000], 120, true);
    }
    finish(
        &st,
        &format!("{RULE}; C03 additionally: degenerate encodings (empty multipolygon, empty exterior, empty interior ring, repeated vertices, empty part mixed with proper parts) on one or both sides of every G22/T22 pair; scale scenarios are a fixed matrix, each run in a child process; the oracle is 'returns normally and pops at most 4n^2+4n+16 sweep events' (the budget hook is armed at 8x that, so a runaway sweep ends as a panic)"),
        &[
            "hook counter counts exactly the events popped by the sweep loop (feature verif-hooks)",
            "scale scenarios are a scenario matrix (exhaustive over the matrix, not over inputs)",
            "this evidence merges the release and the debug-assertions binary (see build_flavours)",
        ],
        true,
        Some(&|c| replay(c, false)),
    )
}

// ------------------------------------------------------------------------------------------------
// merging the evidence of the two build flavours
// ------------------------------------------------------------------------------------------------

pub fn merge_evidence(prop: &str, tier: &str, files: &[String]) -> i32 {
    let mut parts: Vec<Value> = vec![];
    for f in files {
        match std::fs::read_to_string(f)
            .ok()
            .and_then(|s| serde_json::from_str::<Value>(&s).ok())
        {
            Some(v) => parts.push(v),
            None => {
                println!("MACHINERY: evidence part {f} missing or unparsable");
                return 2;
            }
        }
    }
    let sum = |k: &str| {
        parts
            .iter()
            .map(|p| p["coverage"][k].as_u64().unwrap_or(0))
            .sum::<u64>()
    };
    let mut cov = parts[0]["coverage"].clone();
    for k in [
        "states",
        "transitions",
        "traces_validated_against_impl",
        "evaluations",
        "distinct_nontrivial",
    ] {
        cov[k] = json!(sum(k));
    }
    cov["exhaustive"] = json!(parts
        .iter()
        .all(|p| p["coverage"]["exhaustive"].as_bool().unwrap_or(false)));
    cov["build_flavours"] = json!(parts
        .iter()
        .map(|p| p["coverage"]["build_flavour"].clone())
        .collect::<Vec<_>>());
    cov["per_flavour"] = json!(parts
        .iter()
        .map(|p| json!({"flavour": p["coverage"]["build_flavour"], "families": p["coverage"]["families"], "counters": p["coverage"]["counters"],
            "maxima": p["coverage"]["maxima"], "known_findings_hit": p["coverage"]["known_findings_hit"],
            "unlisted_violations_by_clause": p["coverage"]["unlisted_violations_by_clause"], "notes": p["coverage"]["notes"],
            "states": p["coverage"]["states"], "transitions": p["coverage"]["transitions"], "wall_s": p["wall_s"]}))
        .collect::<Vec<_>>());
    let ev = json!({
        "property_id": prop, "tier": tier, "seed": parts[0]["seed"], "level": "model_checking", "coverage": cov,
        "assumptions": parts[0]["assumptions"],
        "wall_s": parts.iter().map(|p| p["wall_s"].as_f64().unwrap_or(0.0)).sum::<f64>(),
        "violations": parts.iter().map(|p| p["violations"].as_u64().unwrap_or(0)).sum::<u64>(),
    });
    let dir = std::env::var("VERIF_EVIDENCE_DIR").unwrap_or_else(|_| format!("{VERIF_DIR}/evidence"));
    let path = format!("{dir}/{prop}.json");
    if std::fs::write(&path, serde_json::to_string_pretty(&ev).unwrap()).is_err() {
        println!("MACHINERY: cannot write {path}");
        return 2;
    }
    0
}
