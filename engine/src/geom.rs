//! Exact planar predicates and small geometric helpers on f64 coordinates.
//! `orient` is Shewchuk's adaptive predicate (crate `robust`): its sign is exact for any f64 input,
//! so crossing-number parity and "lies exactly on" are decided exactly, also for float operands.
use geo_types::{Coord, LineString, MultiPolygon, Polygon};
use robust::{orient2d, Coord as RC};

pub type P = (f64, f64);
pub type Seg = (P, P);
pub type MP = MultiPolygon<f64>;

#[inline]
pub fn orient(a: P, b: P, c: P) -> f64 {
    orient2d(
        RC { x: a.0, y: a.1 },
        RC { x: b.0, y: b.1 },
        RC { x: c.0, y: c.1 },
    )
}

pub fn c(x: f64, y: f64) -> Coord<f64> {
    Coord { x, y }
}

pub fn pt(c: Coord<f64>) -> P {
    (c.x, c.y)
}

/// Non-degenerate edges of a ring, in ring order. An unclosed ring is closed implicitly
/// (geo-types closes rings on construction, so this never happens for `Polygon::new`).
pub fn ring_edges(r: &LineString<f64>, out: &mut Vec<Seg>) {
    let p = &r.0;
    if p.len() < 2 {
        return;
    }
    for i in 0..p.len() - 1 {
        if p[i] != p[i + 1] {
            out.push((pt(p[i]), pt(p[i + 1])));
        }
    }
}

pub fn poly_edges(p: &Polygon<f64>, out: &mut Vec<Seg>) {
    ring_edges(p.exterior(), out);
    for h in p.interiors() {
        ring_edges(h, out);
    }
}

pub fn mp_edges(mp: &MP) -> Vec<Seg> {
    let mut v = vec![];
    for p in &mp.0 {
        poly_edges(p, &mut v);
    }
    v
}

pub fn mp_rings(mp: &MP) -> Vec<&LineString<f64>> {
    let mut v = vec![];
    for p in &mp.0 {
        v.push(p.exterior());
        for h in p.interiors() {
            v.push(h);
        }
    }
    v
}

pub fn mp_vertices(mp: &MP) -> Vec<P> {
    let mut v = vec![];
    for r in mp_rings(mp) {
        for q in &r.0 {
            v.push(pt(*q));
        }
    }
    v
}

/// exact crossing-number parity of point w against a set of edges (w must not lie on an edge)
pub fn parity(edges: &[Seg], w: P) -> bool {
    let mut c = false;
    for &(a, b) in edges {
        if (a.1 > w.1) != (b.1 > w.1) {
            let (lo, hi) = if a.1 < b.1 { (a, b) } else { (b, a) };
            if orient(lo, hi, w) > 0.0 {
                c = !c;
            }
        }
    }
    c
}

pub fn ring_parity(r: &LineString<f64>, w: P) -> bool {
    let p = &r.0;
    let mut c = false;
    if p.len() < 2 {
        return false;
    }
    for i in 0..p.len() - 1 {
        let (a, b) = (pt(p[i]), pt(p[i + 1]));
        if (a.1 > w.1) != (b.1 > w.1) {
            let (lo, hi) = if a.1 < b.1 { (a, b) } else { (b, a) };
            if orient(lo, hi, w) > 0.0 {
                c = !c;
            }
        }
    }
    c
}

/// even-odd membership over all rings of the multipolygon
pub fn evenodd(mp: &MP, w: P) -> bool {
    let mut c = false;
    for r in mp_rings(mp) {
        if ring_parity(r, w) {
            c = !c;
        }
    }
    c
}

pub fn poly_contains(p: &Polygon<f64>, w: P) -> bool {
    ring_parity(p.exterior(), w) && !p.interiors().iter().any(|h| ring_parity(h, w))
}

/// number of polygons containing w (inside the exterior and outside all holes of that polygon)
pub fn polywise(mp: &MP, w: P) -> usize {
    mp.0.iter().filter(|p| poly_contains(p, w)).count()
}

pub fn dist_pt_seg(w: P, s: Seg) -> f64 {
    let (a, b) = s;
    let (dx, dy) = (b.0 - a.0, b.1 - a.1);
    let l2 = dx * dx + dy * dy;
    let t = if l2 == 0.0 {
        0.0
    } else {
        (((w.0 - a.0) * dx + (w.1 - a.1) * dy) / l2).clamp(0.0, 1.0)
    };
    let (px, py) = (a.0 + t * dx, a.1 + t * dy);
    ((w.0 - px).powi(2) + (w.1 - py).powi(2)).sqrt()
}

/// exact: p lies on the closed segment s
pub fn on_segment(p: P, s: Seg) -> bool {
    let (a, b) = s;
    orient(a, b, p) == 0.0
        && p.0 >= a.0.min(b.0)
        && p.0 <= a.0.max(b.0)
        && p.1 >= a.1.min(b.1)
        && p.1 <= a.1.max(b.1)
}

/// exact: p lies on s and is not an end point of s
pub fn in_interior(p: P, s: Seg) -> bool {
    on_segment(p, s) && p != s.0 && p != s.1
}

pub fn collinear(s: Seg, t: Seg) -> bool {
    orient(s.0, s.1, t.0) == 0.0 && orient(s.0, s.1, t.1) == 0.0
}

/// exact: the two segments cross in a single point interior to both
pub fn proper_cross(s: Seg, t: Seg) -> bool {
    let (d1, d2) = (orient(s.0, s.1, t.0), orient(s.0, s.1, t.1));
    let (d3, d4) = (orient(t.0, t.1, s.0), orient(t.0, t.1, s.1));
    ((d1 > 0.0 && d2 < 0.0) || (d1 < 0.0 && d2 > 0.0))
        && ((d3 > 0.0 && d4 < 0.0) || (d3 < 0.0 && d4 > 0.0))
}

/// exact: the segments are collinear and share more than one point
pub fn collinear_overlap(s: Seg, t: Seg) -> bool {
    if !collinear(s, t) {
        return false;
    }
    // project on the dominant axis
    let key = |p: P| if s.0 .0 != s.1 .0 { p.0 } else { p.1 };
    let (s0, s1) = (key(s.0).min(key(s.1)), key(s.0).max(key(s.1)));
    let (t0, t1) = (key(t.0).min(key(t.1)), key(t.0).max(key(t.1)));
    s0.max(t0) < s1.min(t1)
}

/// twice the signed area of a ring (f64 shoelace; exact when all products are exact)
pub fn ring_area2(r: &LineString<f64>) -> f64 {
    let p = &r.0;
    let mut s = 0.0;
    for i in 0..p.len().saturating_sub(1) {
        s += p[i].x * p[i + 1].y - p[i + 1].x * p[i].y;
    }
    s
}

/// area of a multipolygon read polygon-wise: |exterior| - sum |holes|
pub fn mp_area(mp: &MP) -> f64 {
    let mut s = 0.0;
    for p in &mp.0 {
        s += ring_area2(p.exterior()).abs() * 0.5;
        for h in p.interiors() {
            s -= ring_area2(h).abs() * 0.5;
        }
    }
    s
}

pub fn max_abs_coord(mps: &[&MP]) -> f64 {
    let mut m: f64 = 0.0;
    for mp in mps {
        for v in mp_vertices(mp) {
            m = m.max(v.0.abs()).max(v.1.abs());
        }
    }
    m
}

pub fn ls_from(pts: &[P]) -> LineString<f64> {
    let mut v: Vec<Coord<f64>> = pts.iter().map(|&(x, y)| Coord { x, y }).collect();
    if !v.is_empty() && v[0] != v[v.len() - 1] {
        v.push(v[0]);
    }
    LineString(v)
}

pub fn poly_from(ext: &[P], holes: &[Vec<P>]) -> Polygon<f64> {
    Polygon::new(ls_from(ext), holes.iter().map(|h| ls_from(h)).collect())
}

pub fn hex(mp: &MP) -> serde_json::Value {
    use serde_json::json;
    json!(mp
        .0
        .iter()
        .map(|p| {
            std::iter::once(p.exterior())
                .chain(p.interiors().iter())
                .map(|r| r.0.iter().map(|c| json!([c.x, c.y])).collect::<Vec<_>>())
                .collect::<Vec<_>>()
        })
        .collect::<Vec<_>>())
}

/// bit-exact encoding (hex of the IEEE bits) for replay files
pub fn hex_bits(mp: &MP) -> serde_json::Value {
    use serde_json::json;
    json!(mp
        .0
        .iter()
        .map(|p| {
            std::iter::once(p.exterior())
                .chain(p.interiors().iter())
                .map(|r| {
                    r.0.iter()
                        .map(|c| {
                            json!([
                                format!("{:016x}", c.x.to_bits()),
                                format!("{:016x}", c.y.to_bits())
                            ])
                        })
                        .collect::<Vec<_>>()
                })
                .collect::<Vec<_>>()
        })
        .collect::<Vec<_>>())
}

pub fn from_hex_bits(v: &serde_json::Value) -> Option<MP> {
    let mut polys = vec![];
    for p in v.as_array()? {
        let mut rings: Vec<LineString<f64>> = vec![];
        for r in p.as_array()? {
            let mut pts = vec![];
            for q in r.as_array()? {
                let x = u64::from_str_radix(q.get(0)?.as_str()?, 16).ok()?;
                let y = u64::from_str_radix(q.get(1)?.as_str()?, 16).ok()?;
                pts.push(Coord {
                    x: f64::from_bits(x),
                    y: f64::from_bits(y),
                });
            }
            rings.push(LineString(pts));
        }
        if rings.is_empty() {
            return None;
        }
        let ext = rings.remove(0);
        polys.push(Polygon::new(ext, rings));
    }
    Some(MultiPolygon(polys))
}

/// bitwise equality of two multipolygons (ring for ring, coordinate for coordinate)
pub fn mp_bits_eq(a: &MP, b: &MP) -> bool {
    if a.0.len() != b.0.len() {
        return false;
    }
    for (p, q) in a.0.iter().zip(b.0.iter()) {
        if p.interiors().len() != q.interiors().len() {
            return false;
        }
        let rs = std::iter::once(p.exterior()).chain(p.interiors().iter());
        let qs = std::iter::once(q.exterior()).chain(q.interiors().iter());
        for (r, s) in rs.zip(qs) {
            if r.0.len() != s.0.len() {
                return false;
            }
            for (u, v) in r.0.iter().zip(s.0.iter()) {
                if u.x.to_bits() != v.x.to_bits() || u.y.to_bits() != v.y.to_bits() {
                    return false;
                }
            }
        }
    }
    true
}
