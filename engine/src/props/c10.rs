//! C10: the f32 and f64 instantiations agree coordinate for coordinate where everything is exactly
//! representable in both, and every base oracle (C01 C02 C04 C05) also holds in f32.
use super::base::*;
use crate::complex::*;
use crate::geom::*;
use crate::run::*;
use crate::stats::*;
use rayon::prelude::*;
use serde_json::{json, Value};

pub fn agree_case(fam: &Family, enc: Enc, a: u32, b: u32, loc: &mut Local) -> Vec<String> {
    let (pa, pb) = (&fam.enc(enc)[a as usize], &fam.enc(enc)[b as usize]);
    let mut cl = vec![];
    for op in OPS {
        let (x, y) = (
            call_full(pa, pb, op, Ft::F64, Pairing::MM),
            call_full(pa, pb, op, Ft::F32, Pairing::MM),
        );
        loc.transitions += 2;
        if x.events != y.events {
            cl.push(format!(
                "C10 f32-and-f64-process-different-numbers-of-sweep-events {}",
                op_name(op)
            ));
        }
        match (x.res, y.res) {
            (Ok(r64), Ok(r32)) => {
                if !mp_bits_eq(&r64, &r32) {
                    cl.push(format!("C10 f32-result!=f64-result {}", op_name(op)));
                }
            }
            (Ok(_), Err(_)) => cl.push(format!("C10 f32-panics-where-f64-returns {}", op_name(op))),
            (Err(_), Ok(_)) => cl.push(format!("C10 f64-panics-where-f32-returns {}", op_name(op))),
            _ => {}
        }
    }
    cl
}

// ------------------------------------------------------------------------------------------------
// power-of-two scales: multiplying every coordinate by 2^k is exact in both types and commutes with every
// floating-point operation of the algorithm as long as nothing overflows or underflows, so the f64 result
// of the scaled operands must be the scaled f64 result bit for bit, and the f32 result must equal it.
// The exponents keep every quantity the unchanged code depends on (coordinates, their differences and
// pairwise products) far inside the f32 range; only sign tests are applied to degree-4 quantities.
// ------------------------------------------------------------------------------------------------

pub const SCALE_EXPONENTS: [i32; 4] = [-24, 24, 33, 45];

pub fn agree_scaled_case(fam: &Family, enc: Enc, a: u32, b: u32, k: i32, loc: &mut Local) -> Vec<String> {
    let s = 2f64.powi(k);
    let sc = |p: P| (p.0 * s, p.1 * s);
    let (pa0, pb0) = (&fam.enc(enc)[a as usize], &fam.enc(enc)[b as usize]);
    let (pa, pb) = (crate::nf::map_mp(pa0, &sc), crate::nf::map_mp(pb0, &sc));
    let mut cl = vec![];
    for op in OPS {
        let base = call_full(pa0, pb0, op, Ft::F64, Pairing::MM);
        let (x, y) = (
            call_full(&pa, &pb, op, Ft::F64, Pairing::MM),
            call_full(&pa, &pb, op, Ft::F32, Pairing::MM),
        );
        loc.transitions += 3;
        match (base.res, x.res, y.res) {
            (Ok(r0), Ok(r64), Ok(r32)) => {
                if !mp_bits_eq(&crate::nf::map_mp(&r0, &sc), &r64) {
                    cl.push(format!("C10 scaled-2^{k}: f64-result-is-not-the-scaled-result {}", op_name(op)));
                }
                if !mp_bits_eq(&r64, &r32) {
                    cl.push(format!("C10 scaled-2^{k}: f32-result!=f64-result {}", op_name(op)));
                }
            }
            (_, Ok(_), Err(_)) => cl.push(format!("C10 scaled-2^{k}: f32-panics-where-f64-returns {}", op_name(op))),
            (Ok(_), Err(_), _) => cl.push(format!("C10 scaled-2^{k}: f64-panics-on-the-scaled-operands {}", op_name(op))),
            _ => {}
        }
    }
    cl
}

// ------------------------------------------------------------------------------------------------
// near-collinear fans: two triangles that share only an apex O; the edges leaving O are almost collinear
// (the far end R of one lies 1..3 units to the right of the line O->P of the other, at distances of ~2*10^7).
// All coordinates are integers below 2^24 in magnitude (exact in f32 and f64), coordinate differences are
// not exact in f32. There is no proper intersection, so every coordinate of every correct result is an input
// coordinate and the f32 result must equal the f64 result bit for bit. This is an inexact-degenerate family
// for single precision (cf. DESIGN 3.5): members on which the unchanged f32 instantiation fails are listed
// individually as known findings.
// ------------------------------------------------------------------------------------------------

pub const N_FANS: usize = 48;
pub const TINY_EXPONENT: i32 = -40;
pub const SCALED_QUICK: [&str; 5] = ["G22", "G32", "G23", "T22", "O21"];

pub fn fan(k: usize) -> (MP, MP) {
    let mut st: u64 = 0x9E3779B97F4A7C15u64.wrapping_mul(k as u64 + 17);
    let mut rnd = || {
        st ^= st << 13;
        st ^= st >> 7;
        st ^= st << 17;
        (st >> 11) as f64 / (1u64 << 53) as f64
    };
    let o = (-8_325_558.0 + (rnd() * 1000.0).round(), -7_607_858.0 + (rnd() * 1000.0).round());
    let theta = 0.25 + rnd() * 1.0; // direction of the shared ray, first quadrant
    let l = 1.6e7 + rnd() * 5.0e6;
    let dir = (theta.cos(), theta.sin());
    let p = ((o.0 + l * dir.0).round(), (o.1 + l * dir.1).round());
    let s = if k % 2 == 0 { 1.2 } else { 0.8 };
    let mut r = ((o.0 + s * l * dir.0).round(), (o.1 + s * l * dir.1).round());
    // R: among the integer points within 3 steps of the exact point on the ray, the one strictly to the right of
    // the line O->P that is closest to it (odd fans) or the k%3-th closest (diversity)
    let r0 = r;
    let mut cands: Vec<(f64, P)> = vec![];
    for dx in -3..=3 {
        for dy in -3..=3 {
            let q = (r0.0 + dx as f64, r0.1 + dy as f64);
            let c = orient(o, p, q);
            if c < 0.0 {
                cands.push((-c, q));
            }
        }
    }
    cands.sort_by(|x, y| x.partial_cmp(y).unwrap());
    r = cands[(k % 3).min(cands.len() - 1)].1;
    let t = ((o.0 + 0.9 * l * (theta + 0.7).cos()).round(), (o.1 + 0.9 * l * (theta + 0.7).sin()).round());
    let b = ((o.0 + 1.1 * l * (theta - 0.7).cos()).round(), (o.1 + 1.1 * l * (theta - 0.7).sin()).round());
    let a = geo_types::MultiPolygon(vec![poly_from(&[o, p, t], &[])]);
    let bb = geo_types::MultiPolygon(vec![poly_from(&[o, b, r], &[])]);
    (a, bb)
}

pub fn fan_case(k: usize, swapped: bool, loc: &mut Local) -> Vec<String> {
    let (a, b) = fan(k);
    let (a, b) = if swapped { (b, a) } else { (a, b) };
    let mut cl = vec![];
    for op in OPS {
        let (x, y) = (call_full(&a, &b, op, Ft::F64, Pairing::MM), call_full(&a, &b, op, Ft::F32, Pairing::MM));
        loc.transitions += 2;
        match (x.res, y.res) {
            (Ok(r64), Ok(r32)) => {
                // f64 control: the obvious result (no proper intersection: the triangles only share the apex)
                let want64: usize = match op {
                    geo_booleanop::boolean::Operation::Intersection => 0,
                    geo_booleanop::boolean::Operation::Difference => 1,
                    _ => 2,
                };
                if r64.0.len() != want64 || (want64 > 0 && (mp_area(&r64) - match op {
                    geo_booleanop::boolean::Operation::Difference => mp_area(&a),
                    _ => mp_area(&a) + mp_area(&b),
                }).abs() > 1e-3 * mp_area(&a)) {
                    cl.push(format!("C10 fan: f64 result is not the obvious one {}", op_name(op)));
                }
                if !mp_bits_eq(&r64, &r32) {
                    cl.push(format!("C10 fan: f32-result!=f64-result {}", op_name(op)));
                }
            }
            (Ok(_), Err(_)) => cl.push(format!("C10 fan: f32-panics-where-f64-returns {}", op_name(op))),
            (Err(_), _) => cl.push(format!("C10 fan: f64-panics {}", op_name(op))),
        }
    }
    cl
}

pub fn replay(case: &Value, verbose: bool) -> Vec<String> {
    if case["kind"] == "fan" {
        let k = case["k"].as_u64().unwrap() as usize;
        let sw = case["swapped"].as_bool().unwrap();
        if verbose {
            let (a, b) = fan(k);
            println!("A = {}\nB = {}", hex(&a), hex(&b));
            for op in OPS {
                let (x, y) = if sw { (&b, &a) } else { (&a, &b) };
                println!("{} f64 -> {:?}", op_name(op), call_full(x, y, op, Ft::F64, Pairing::MM).res.map(|r| hex(&r)));
                println!("{} f32 -> {:?}", op_name(op), call_full(x, y, op, Ft::F32, Pairing::MM).res.map(|r| hex(&r)));
            }
        }
        let mut loc = Local::default();
        return fan_case(k, sw, &mut loc);
    }
    if case["kind"] == "agree-scaled" {
        let fam = family_cached(case["family"].as_str().unwrap());
        let enc = enc_from(case["enc"].as_str().unwrap_or("M"));
        let (a, b) = (case["a"].as_u64().unwrap() as u32, case["b"].as_u64().unwrap() as u32);
        let k = case["k"].as_i64().unwrap() as i32;
        if verbose {
            println!("A = {} x 2^{k}\nB = {} x 2^{k}", hex(&fam.enc(enc)[a as usize]), hex(&fam.enc(enc)[b as usize]));
        }
        let mut loc = Local::default();
        return agree_scaled_case(&fam, enc, a, b, k, &mut loc);
    }
    if case["kind"] == "agree" {
        let fam = family_cached(case["family"].as_str().unwrap());
        let enc = enc_from(case["enc"].as_str().unwrap_or("M"));
        let (a, b) = (
            case["a"].as_u64().unwrap() as u32,
            case["b"].as_u64().unwrap() as u32,
        );
        if verbose {
            println!(
                "A = {}\nB = {}",
                hex(&fam.enc(enc)[a as usize]),
                hex(&fam.enc(enc)[b as usize])
            );
        }
        let mut loc = Local::default();
        return agree_case(&fam, enc, a, b, &mut loc);
    }
    super::base::replay(case, verbose)
}

pub fn run(tier: &str) -> i32 {
    let st = Stats::new("C10", tier);
    silence_panics();
    let thorough = tier == "thorough";
    let want = Want::for_prop("C10");
    let mut fams: Vec<(&str, Vec<Enc>)> = QUICK_COMPLEX
        .iter()
        .map(|&n| (n, vec![Enc::M, Enc::U]))
        .collect();
    if thorough {
        fams.extend(THOROUGH_COMPLEX.iter().map(|&n| (n, vec![Enc::M])));
    }
    for (name, encs) in fams {
        let fam = Family::new(name);
        let n = fam.cx.noperands();
        for enc in encs {
            st.family(&format!(
                "{name}/{}: f32 result == f64 result bit for bit on {} ordered pairs",
                enc.name(),
                n as u64 * n as u64
            ));
            (0..n).into_par_iter().for_each(|a| {
                let mut loc = Local::default();
                for b in 0..n {
                    loc.states += 1;
                    if fam.nontrivial(a, b) {
                        loc.nontrivial += 1;
                    }
                    for c in agree_case(&fam, enc, a, b, &mut loc) {
                        loc.violation(&c, format!("{name}:{}:{a}:{b}:{}", enc.name(), clause_op(&c)), json!({"prop": "C10", "kind": "agree", "family": name, "enc": enc.name(), "a": a, "b": b}));
                    }
                }
                st.merge(&loc);
            });
            // power-of-two scales (quick: five small families, M encoding; thorough: both encodings of all quick families)
            if (enc == Enc::M && SCALED_QUICK.contains(&name)) || (thorough && QUICK_COMPLEX.contains(&name)) {
                st.family(&format!(
                    "{name}/{}: operands scaled by 2^k, k in {:?}: f64 result == scaled result and f32 result == f64 result bit for bit on {} ordered pairs per scale",
                    enc.name(),
                    SCALE_EXPONENTS,
                    n as u64 * n as u64
                ));
                (0..n).into_par_iter().for_each(|a| {
                    let mut loc = Local::default();
                    for b in 0..n {
                        for k in SCALE_EXPONENTS {
                            loc.states += 1;
                            if fam.nontrivial(a, b) {
                                loc.nontrivial += 1;
                            }
                            for c in agree_scaled_case(&fam, enc, a, b, k, &mut loc) {
                                loc.violation(&c, format!("{name}:{}:{a}:{b}:2^{k}:{}", enc.name(), clause_op(&c)), json!({"prop": "C10", "kind": "agree-scaled", "family": name, "enc": enc.name(), "a": a, "b": b, "k": k}));
                            }
                        }
                    }
                    st.merge(&loc);
                });
            }
            // every base oracle in f32 (quick: M encoding; thorough: both)
            if enc == Enc::M || thorough {
                sweep_complex(&st, "C10", &fam, enc, Ft::F32, &want);
            }
        }
    }
    // the far end of the exponent range (finding N4): single faces of T22 scaled by 2^-40. The squared cross
    // product of two edges (2^-160) underflows in f32, the unchanged code takes crossing and touching edges for
    // parallel ones, and the f32 result differs from the f64 result. Failing members are listed individually.
    {
        let fam = Family::new("T22");
        let nf = (fam.cx.noperands() as f64).log2().round() as u32;
        st.family(&format!(
            "T22/M single faces scaled by 2^{TINY_EXPONENT}: {} ordered pairs, f32 vs f64 bit for bit (finding N4: intermediate products underflow in f32)",
            nf * nf
        ));
        for i in 0..nf {
            let mut loc = Local::default();
            for j in 0..nf {
                let (a, b) = (1u32 << i, 1u32 << j);
                loc.states += 1;
                if fam.nontrivial(a, b) {
                    loc.nontrivial += 1;
                }
                for c in agree_scaled_case(&fam, Enc::M, a, b, TINY_EXPONENT, &mut loc) {
                    loc.violation(&c, format!("T22:M:{a}:{b}:2^{TINY_EXPONENT}:{}", clause_op(&c)), json!({"prop": "C10", "kind": "agree-scaled", "family": "T22", "enc": "M", "a": a, "b": b, "k": TINY_EXPONENT}));
                }
            }
            st.merge(&loc);
        }
    }
    // general-position table rounded to f32, single-precision tolerances
    sweep_table(
        &st,
        "C10",
        &p_spec(9, st.seed, 1.0, true),
        Ft::F32,
        &want,
        if thorough {
            PairSet::All
        } else {
            PairSet::WithTriangle
        },
    );
    st.family(&format!("near-collinear apex fans: {N_FANS} pairs of triangles sharing only an apex, edges from the apex collinear to within 1e-7 relative, x 2 operand orders x 4 operations, f32 vs f64 bit for bit"));
    for k in 0..N_FANS {
        for sw in [false, true] {
            let mut loc = Local::default();
            loc.states += 1;
            loc.nontrivial += 1;
            for c in fan_case(k, sw, &mut loc) {
                loc.violation(&c, format!("fan:{k}:{sw}:{}", clause_op(&c)), json!({"prop": "C10", "kind": "fan", "k": k, "swapped": sw}));
            }
            st.merge(&loc);
        }
    }
    // integer coordinates up to 2^24 (exact in f32) with inexact differences, in f32 and, as a control, in f64
    sweep_table(&st, "C10", &pi_spec(), Ft::F32, &want, if thorough { PairSet::All } else { PairSet::WithTriangle });
    sweep_table(&st, "C10", &pi_spec(), Ft::F64, &want, PairSet::TrianglesOnly);
    if thorough {
        sweep_table(
            &st,
            "C10",
            &p_spec(9, st.seed, 1.1 * 1048576.0, true),
            Ft::F32,
            &want,
            PairSet::WithTriangle,
        );
        sweep_table(
            &st,
            "C10",
            &p_spec(16, st.seed, 1.0, true),
            Ft::F32,
            &want,
            PairSet::TrianglesOnly,
        );
    }
    finish(
        &st,
        &format!("{RULE}; C10: every pair is run in f32 and f64: on complex families (small integer coordinates, integer or half-integer intersection points) the widened f32 result must equal the f64 result bit for bit and pop the same number of sweep events; the same with every coordinate multiplied by 2^k (k in -24, 24, 33, 45), where in addition the f64 result must be the scaled unscaled result bit for bit; the oracles of C01 C02 C04 C05 are evaluated on the f32 results; a point table rounded to f32 is checked with single-precision tolerance (1e-4 x magnitude)"),
        &["f32 operands are produced by rounding the f64 operand; on complex families this is exact"],
        true,
        Some(&|c| replay(c, false)),
    )
}
