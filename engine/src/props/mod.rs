pub mod base;
pub mod c03;
