//! C10: the f32 and f64 instantiations agree coordinate for coordinate where everything is exactly
//! representable in both, and every base oracle (C01 C02 C04 C05) also holds in f32.
use super::base::*;
use crate::complex::*;
use crate::geom::*;
use crate::run::*;
use crate::stats::*;
use rayon::prelude::*;
use serde_json::{json, Value};

pub fn agree_case(fam: &Family, enc: Enc, a: u32, b: u32, loc: &mut Local) -> Vec<String> {
    let (pa, pb) = (&fam.enc(enc)[a as usize], &fam.enc(enc)[b as usize]);
    let mut cl = vec![];
    for op in OPS {
        let (x, y) = (
            call_full(pa, pb, op, Ft::F64, Pairing::MM),
            call_full(pa, pb, op, Ft::F32, Pairing::MM),
        );
        loc.transitions += 2;
        if x.events != y.events {
            cl.push(format!(
                "C10 f32-and-f64-process-different-numbers-of-sweep-events {}",
                op_name(op)
            ));
        }
        match (x.res, y.res) {
            (Ok(r64), Ok(r32)) => {
                if !mp_bits_eq(&r64, &r32) {
                    cl.push(format!("C10 f32-result!=f64-result {}", op_name(op)));
                }
            }
            (Ok(_), Err(_)) => cl.push(format!("C10 f32-panics-where-f64-returns {}", op_name(op))),
            (Err(_), Ok(_)) => cl.push(format!("C10 f64-panics-where-f32-returns {}", op_name(op))),
            _ => {}
        }
    }
    cl
}

pub fn replay(case: &Value, verbose: bool) -> Vec<String> {
    if case["kind"] == "agree" {
        let fam = family_cached(case["family"].as_str().unwrap());
        let enc = enc_from(case["enc"].as_str().unwrap_or("M"));
        let (a, b) = (
            case["a"].as_u64().unwrap() as u32,
            case["b"].as_u64().unwrap() as u32,
        );
        if verbose {
            println!(
                "A = {}\nB = {}",
                hex(&fam.enc(enc)[a as usize]),
                hex(&fam.enc(enc)[b as usize])
            );
        }
        let mut loc = Local::default();
        return agree_case(&fam, enc, a, b, &mut loc);
    }
    super::base::replay(case, verbose)
}

pub fn run(tier: &str) -> i32 {
    let st = Stats::new("C10", tier);
    silence_panics();
    let thorough = tier == "thorough";
    let want = Want::for_prop("C10");
    let mut fams: Vec<(&str, Vec<Enc>)> = QUICK_COMPLEX
        .iter()
        .map(|&n| (n, vec![Enc::M, Enc::U]))
        .collect();
    if thorough {
        fams.extend(THOROUGH_COMPLEX.iter().map(|&n| (n, vec![Enc::M])));
    }
    for (name, encs) in fams {
        let fam = Family::new(name);
        let n = fam.cx.noperands();
        for enc in encs {
            st.family(&format!(
                "{name}/{}: f32 result == f64 result bit for bit on {} ordered pairs",
                enc.name(),
                n as u64 * n as u64
            ));
            (0..n).into_par_iter().for_each(|a| {
                let mut loc = Local::default();
                for b in 0..n {
                    loc.states += 1;
                    if fam.nontrivial(a, b) {
                        loc.nontrivial += 1;
                    }
                    for c in agree_case(&fam, enc, a, b, &mut loc) {
                        loc.violation(&c, format!("{name}:{}:{a}:{b}:{}", enc.name(), clause_op(&c)), json!({"prop": "C10", "kind": "agree", "family": name, "enc": enc.name(), "a": a, "b": b}));
                    }
                }
                st.merge(&loc);
            });
            // every base oracle in f32 (quick: M encoding; thorough: both)
            if enc == Enc::M || thorough {
                sweep_complex(&st, "C10", &fam, enc, Ft::F32, &want);
            }
        }
    }
    // general-position table rounded to f32, single-precision tolerances
    sweep_table(
        &st,
        "C10",
        &p_spec(9, st.seed, 1.0, true),
        Ft::F32,
        &want,
        if thorough {
            PairSet::All
        } else {
            PairSet::WithTriangle
        },
    );
    // integer coordinates up to 2^24 (exact in f32) with inexact differences, in f32 and, as a control, in f64
    sweep_table(&st, "C10", &pi_spec(), Ft::F32, &want, if thorough { PairSet::All } else { PairSet::WithTriangle });
    sweep_table(&st, "C10", &pi_spec(), Ft::F64, &want, PairSet::TrianglesOnly);
    if thorough {
        sweep_table(
            &st,
            "C10",
            &p_spec(9, st.seed, 1.1 * 1048576.0, true),
            Ft::F32,
            &want,
            PairSet::WithTriangle,
        );
        sweep_table(
            &st,
            "C10",
            &p_spec(16, st.seed, 1.0, true),
            Ft::F32,
            &want,
            PairSet::TrianglesOnly,
        );
    }
    finish(
        &st,
        &format!("{RULE}; C10: every pair is run in f32 and f64: on complex families (small integer coordinates, integer or half-integer intersection points) the widened f32 result must equal the f64 result bit for bit and pop the same number of sweep events; the oracles of C01 C02 C04 C05 are evaluated on the f32 results; a point table rounded to f32 is checked with single-precision tolerance (1e-4 x magnitude)"),
        &["f32 operands are produced by rounding the f64 operand; on complex families this is exact"],
        true,
        Some(&|c| replay(c, false)),
    )
}
