//! C12: operations are pure and deterministic — operands unchanged, results independent of the
//! call history, of the thread a call runs in, and of calls running concurrently in other threads.
use super::base::*;
use crate::geom::*;
use crate::run::*;
use crate::sched::*;
use crate::stats::*;
use geo_booleanop::boolean::Operation;
use geo_booleanop::verif_hooks as hooks;
use serde_json::{json, Value};
use std::collections::BTreeSet;
use std::process::Command;
use std::sync::Arc;

#[derive(Clone)]
pub struct Job {
    pub name: String,
    pub a: MP,
    pub b: MP,
    pub op: Operation,
    pub ft: Ft,
}

/// canonical, bit-exact rendering of an outcome (so that it can cross process boundaries)
pub fn outcome_of(j: &Job) -> String {
    let (a0, b0) = (j.a.clone(), j.b.clone());
    let o = call_full(&j.a, &j.b, j.op, j.ft, Pairing::MM);
    let s = match o.res {
        Ok(r) => format!("ok:{}", serde_json::to_string(&hex_bits(&r)).unwrap()),
        Err(m) => format!("panic:{}", m.chars().take(80).collect::<String>()),
    };
    if !mp_bits_eq(&a0, &j.a) || !mp_bits_eq(&b0, &j.b) {
        return format!("OPERANDS-MODIFIED {s}");
    }
    s
}

/// the fixed alphabet of calls for histories (12) — independent of VERIF_SEED
pub fn alphabet() -> Vec<Job> {
    let g33 = family_cached("G33");
    let t22 = family_cached("T22");
    let p9 = p_spec(9, 1, 1.0, false).build();
    let l2s = l_spec("L2s").build();
    let mut v = vec![];
    for op in OPS {
        v.push(Job { name: format!("G33 ring-with-hole(495) {} plus-shape(186)", op_name(op)), a: g33.m[495].clone(), b: g33.m[186].clone(), op, ft: Ft::F64 });
    }
    for op in [Operation::Intersection, Operation::Union, Operation::Xor] {
        v.push(Job { name: format!("T22 77 {} 178", op_name(op)), a: t22.m[77].clone(), b: t22.m[178].clone(), op, ft: Ft::F64 });
    }
    for op in [Operation::Union, Operation::Difference] {
        v.push(Job { name: format!("P9s1 tri3 {} tri41", op_name(op)), a: p9.ops[3].mp.clone(), b: p9.ops[41].mp.clone(), op, ft: Ft::F64 });
    }
    // two known-finding inputs (N1) that unwind inside connect_edges in the release build
    v.push(Job { name: "L2s 17 xor 28 (known finding: unwinds)".into(), a: l2s.ops[17].mp.clone(), b: l2s.ops[28].mp.clone(), op: Operation::Xor, ft: Ft::F64 });
    v.push(Job { name: "L2s 17 difference 47 (known finding: unwinds)".into(), a: l2s.ops[17].mp.clone(), b: l2s.ops[47].mp.clone(), op: Operation::Difference, ft: Ft::F64 });
    v.push(Job { name: "G33 495 union 186 in f32".into(), a: g33.m[495].clone(), b: g33.m[186].clone(), op: Operation::Union, ft: Ft::F32 });
    // an f64 call with a crossing about 5e-8 (relative) before a segment's end point: sensitive to any hidden
    // tolerance or scale that an earlier call (e.g. the f32 one) may have left behind
    let square = geo_types::MultiPolygon(vec![poly_from(&[(0.0, 0.0), (10.0, 0.0), (10.0, 10.0), (0.0, 10.0)], &[])]);
    let needle = geo_types::MultiPolygon(vec![poly_from(&[(9.99999992, -1.0), (10.0, 1.0), (5.0, 5.0)], &[])]);
    v.push(Job { name: "square intersection triangle crossing just before a vertex (f64)".into(), a: square, b: needle, op: Operation::Intersection, ft: Ft::F64 });
    v
}

// ------------------------------------------------------------------------------------------------
// (b) histories: every sequence of <= 3 calls under three thread placements, in shard processes
// ------------------------------------------------------------------------------------------------

pub fn all_histories(k: usize, maxlen: usize) -> Vec<Vec<usize>> {
    let mut out: Vec<Vec<usize>> = vec![];
    let mut cur: Vec<Vec<usize>> = vec![vec![]];
    for _ in 0..maxlen {
        let mut next = vec![];
        for h in &cur {
            for c in 0..k {
                let mut g = h.clone();
                g.push(c);
                next.push(g);
            }
        }
        out.extend(next.iter().cloned());
        cur = next;
    }
    out
}

pub const PLACEMENTS: [&str; 3] = ["one-thread", "fresh-thread-per-call", "alternating-two-threads"];

fn run_history(alpha: &[Job], h: &[usize], placement: &str) -> Vec<String> {
    match placement {
        "one-thread" => {
            let jobs: Vec<Job> = h.iter().map(|&i| alpha[i].clone()).collect();
            std::thread::spawn(move || jobs.iter().map(outcome_of).collect::<Vec<_>>()).join().unwrap()
        }
        "fresh-thread-per-call" => h
            .iter()
            .map(|&i| {
                let j = alpha[i].clone();
                std::thread::spawn(move || outcome_of(&j)).join().unwrap()
            })
            .collect(),
        _ => {
            // two long-lived threads take the calls alternately
            use std::sync::mpsc::channel;
            let mut txs = vec![];
            let (rtx, rrx) = channel::<(usize, String)>();
            let mut hs = vec![];
            for _ in 0..2 {
                let (tx, rx) = channel::<(usize, Job)>();
                let rtx = rtx.clone();
                hs.push(std::thread::spawn(move || {
                    for (k, j) in rx {
                        rtx.send((k, outcome_of(&j))).unwrap();
                    }
                }));
                txs.push(tx);
            }
            let mut out = vec![];
            for (k, &i) in h.iter().enumerate() {
                txs[k % 2].send((k, alpha[i].clone())).unwrap();
                out.push(rrx.recv().unwrap().1);
            }
            drop(txs);
            for h in hs {
                h.join().unwrap();
            }
            out
        }
    }
}

/// child process: the reference outcome of one call made alone in a fresh process
pub fn child_ref(idx: usize) -> i32 {
    silence_panics();
    let alpha = alphabet();
    println!("REF {}", outcome_of(&alpha[idx]));
    0
}

/// child process: histories of one shard, sequentially; prints one line per deviating call
pub fn child_shard(shard: usize, nshards: usize, upto: Option<usize>, refs_file: &str) -> i32 {
    silence_panics();
    let alpha = alphabet();
    let refs: Vec<String> = serde_json::from_str(&std::fs::read_to_string(refs_file).unwrap()).unwrap();
    let hist = all_histories(alpha.len(), 3);
    let mut n = 0u64;
    for (hi, h) in hist.iter().enumerate() {
        if hi % nshards != shard {
            continue;
        }
        if let Some(u) = upto {
            if hi > u {
                break;
            }
        }
        for pl in PLACEMENTS {
            let got = run_history(&alpha, h, pl);
            n += got.len() as u64;
            for (k, g) in got.iter().enumerate() {
                if *g != refs[h[k]] {
                    println!("{}", json!({"dev": true, "history_index": hi, "history": h, "placement": pl, "position": k,
                        "call": alpha[h[k]].name, "operands_modified": g.starts_with("OPERANDS-MODIFIED")}));
                }
            }
        }
    }
    println!("{}", json!({"done": true, "calls": n}));
    0
}

fn spawn_self(args: &[String]) -> Result<String, String> {
    // A child that does not come back (a call of the implementation that loops) must not hang the check:
    // it is killed after a generous limit and reported as a machinery failure (runaway calls are C03's subject).
    use std::io::Read;
    let exe = crate::run::child_exe();
    let limit_s: u64 = if args[0] == "--c12-ref" { 120 } else { 3600 };
    let mut child = Command::new(exe)
        .args(args)
        .stdout(std::process::Stdio::piped())
        .stderr(std::process::Stdio::piped())
        .spawn()
        .map_err(|e| e.to_string())?;
    let (mut so, mut se) = (child.stdout.take().unwrap(), child.stderr.take().unwrap());
    let ho = std::thread::spawn(move || {
        let mut v = vec![];
        let _ = so.read_to_end(&mut v);
        v
    });
    let he = std::thread::spawn(move || {
        let mut v = vec![];
        let _ = se.read_to_end(&mut v);
        v
    });
    let t0 = std::time::Instant::now();
    let status = loop {
        match child.try_wait().map_err(|e| e.to_string())? {
            Some(st) => break st,
            None => {
                if t0.elapsed().as_secs() > limit_s {
                    let _ = child.kill();
                    let _ = child.wait();
                    return Err(format!("child {:?} did not finish within {limit_s} s and was killed (a call of the implementation that does not return is the subject of C03)", args));
                }
                std::thread::sleep(std::time::Duration::from_millis(5));
            }
        }
    };
    let (out, err) = (ho.join().unwrap(), he.join().unwrap());
    if !status.success() {
        return Err(format!("child {:?} exited with {:?}: {}", args, status, String::from_utf8_lossy(&err).chars().take(200).collect::<String>()));
    }
    Ok(String::from_utf8_lossy(&out).to_string())
}

fn refs_path() -> String {
    format!("/tmp/verif-c12-refs-{}.json", std::process::id())
}

fn compute_refs(alpha: &[Job]) -> Result<Vec<String>, String> {
    let mut refs = vec![];
    for i in 0..alpha.len() {
        let out = spawn_self(&["--c12-ref".into(), i.to_string()])?;
        let line = out.lines().find(|l| l.starts_with("REF ")).ok_or("no REF line")?;
        refs.push(line[4..].to_string());
    }
    Ok(refs)
}

// ------------------------------------------------------------------------------------------------
// (c) schedules
// ------------------------------------------------------------------------------------------------

/// run the given jobs concurrently, one thread each, under one schedule; returns outcomes and the execution
pub fn run_schedule(jobs: &[Job], prefix: &[usize]) -> (Vec<String>, Execution) {
    let sched = Sched::new(jobs.len(), prefix.to_vec());
    let shared: Arc<Vec<Job>> = Arc::new(jobs.to_vec());
    let mut hs = vec![];
    for t in 0..jobs.len() {
        let (s, sh) = (sched.clone(), shared.clone());
        hs.push(
            std::thread::Builder::new()
                .stack_size(4 << 20)
                .spawn(move || {
                    let s2 = s.clone();
                    hooks::set_yield(Some(Box::new(move |_kind| s2.point(t))));
                    s.start(t);
                    // the operands are shared between the threads (same allocation, borrowed immutably)
                    let out = outcome_of(&sh[t]);
                    hooks::set_yield(None);
                    s.finish(t);
                    out
                })
                .unwrap(),
        );
    }
    let outs: Vec<String> = hs.into_iter().map(|h| h.join().unwrap_or_else(|_| "thread-panicked".into())).collect();
    (outs, sched.result())
}

pub fn job_sets(thorough: bool) -> Vec<Vec<Job>> {
    let al = alphabet();
    let j = |i: usize| al[i].clone();
    let g33 = family_cached("G33");
    let sw = Job { name: "G33 plus-shape(186) union ring-with-hole(495) (operands swapped)".into(), a: g33.m[186].clone(), b: g33.m[495].clone(), op: Operation::Union, ft: Ft::F64 };
    let mut v = vec![
        vec![j(5), j(6)],  // union and xor on the same T22 operands
        vec![j(0), j(2)],  // intersection and difference (both break early) on the same G33 operands
        vec![j(1), sw.clone()], // A union B and B union A
        vec![j(7), j(8)],  // float table, union and difference
        vec![j(1), j(11)], // the same call in f64 and f32
        vec![j(1), j(1)],  // the identical call twice
        vec![j(9), j(5)],  // a call that unwinds next to a normal one
    ];
    // three threads: union, xor and intersection on the same T22 operands
    v.push(vec![j(5), j(6), j(4)]);
    if thorough {
        v.push(vec![j(1), j(1), j(1)]);
        v.push(vec![j(9), j(5), j(10)]);
        v.push(vec![j(0), j(3)]);
        v.push(vec![j(2), sw]);
        v.push(vec![j(10), j(9)]);
        for a in 0..al.len() {
            for b in a + 1..al.len() {
                if (a + b) % 3 == 0 {
                    v.push(vec![j(a), j(b)]);
                }
            }
        }
    }
    v
}

fn explore_jobs(st: &Stats, jobs: &[Job], bound: usize, set_index: usize, outcomes_seen: &mut BTreeSet<String>) {
    let refs: Vec<String> = jobs.iter().map(outcome_of).collect();
    let names: Vec<String> = jobs.iter().map(|j| j.name.clone()).collect();
    let mut bad: Vec<(Vec<usize>, Vec<String>)> = vec![];
    let mut abandoned = 0u64;
    let mut diverged = 0u64;
    let cap = 1_000_000;
    // single pass: run + visit share the outcome through a side channel
    let last: std::cell::RefCell<Vec<String>> = std::cell::RefCell::new(vec![]);
    let (n, maxp, capped) = explore(
        bound,
        &mut |prefix| {
            let (outs, x) = run_schedule(jobs, prefix);
            *last.borrow_mut() = outs;
            x
        },
        &mut |choices, x| {
            let outs = last.borrow().clone();
            outcomes_seen.insert(format!("{set_index}:{}", outs.join("|")));
            if x.abandoned {
                abandoned += 1;
            }
            if x.diverged {
                diverged += 1;
            }
            if outs != refs {
                bad.push((choices.to_vec(), outs));
            }
        },
        cap,
    );
    st.states.fetch_add(n, std::sync::atomic::Ordering::Relaxed);
    st.nontrivial.fetch_add(n, std::sync::atomic::Ordering::Relaxed);
    st.trans(n * jobs.len() as u64);
    st.add("schedules_explored", n);
    st.add("schedules_abandoned_thread_blocked_outside_scheduler", abandoned);
    st.max("max_scheduling_points_per_schedule", maxp as f64);
    st.family(&format!("schedules: {} threads [{}], preemption bound {bound}: {n} schedules, up to {maxp} scheduling points", jobs.len(), names.join(" || ")));
    if capped {
        st.cap(&format!("schedule cap {cap} hit for job set {set_index}"));
    }
    if diverged > 0 {
        // the scheduling points of a replayed prefix changed: the harness does not own all nondeterminism
        st.violation(
            "C12 schedule-prefix-diverged-on-replay (execution is not a function of the schedule)",
            format!("sched:{set_index}:diverged"),
            json!({"prop": "C12", "kind": "schedule", "set": set_index, "thorough": false, "schedule": [], "expect_diverge": true}),
        );
    }
    for (choices, outs) in bad.into_iter().take(5) {
        let which: Vec<usize> = (0..jobs.len()).filter(|&t| outs[t] != refs[t]).collect();
        st.violation(
            &format!("C12 concurrent-call-result-differs-from-sequential-reference{}", if outs.iter().any(|o| o.starts_with("OPERANDS-MODIFIED")) { " (operands modified)" } else { "" }),
            format!("sched:{set_index}:{:?}", choices),
            json!({"prop": "C12", "kind": "schedule", "set": set_index, "schedule": choices, "threads": names, "deviating_threads": which}),
        );
    }
}

// ------------------------------------------------------------------------------------------------
// (d) source audit (context, not a verdict)
// ------------------------------------------------------------------------------------------------

fn source_audit() -> Vec<String> {
    let mut found = vec![];
    fn walk(dir: &std::path::Path, out: &mut Vec<String>) {
        if let Ok(rd) = std::fs::read_dir(dir) {
            for e in rd.flatten() {
                let p = e.path();
                if p.is_dir() {
                    walk(&p, out);
                } else if p.extension().map(|x| x == "rs").unwrap_or(false) && !p.ends_with("verif_hooks.rs") {
                    if let Ok(s) = std::fs::read_to_string(&p) {
                        for (i, l) in s.lines().enumerate() {
                            let t = l.trim_start();
                            if t.starts_with("//") {
                                continue;
                            }
                            for pat in ["static ", "thread_local!", "lazy_static", "OnceCell", "OnceLock", "Lazy<", "unsafe impl Send", "unsafe impl Sync", "static mut"] {
                                if t.contains(pat) && !t.contains("&'static") && !t.contains("'static str") {
                                    out.push(format!("{}:{}: {}", p.display(), i + 1, t.chars().take(100).collect::<String>()));
                                    break;
                                }
                            }
                        }
                    }
                }
            }
        }
    }
    walk(std::path::Path::new("/repo/lib/src"), &mut found);
    found.sort();
    found
}

// ------------------------------------------------------------------------------------------------

pub fn replay(case: &Value, verbose: bool) -> Vec<String> {
    match case["kind"].as_str().unwrap() {
        "schedule" => {
            let sets = job_sets(true);
            let jobs = &sets[case["set"].as_u64().unwrap() as usize];
            let prefix: Vec<usize> = case["schedule"].as_array().unwrap().iter().map(|v| v.as_u64().unwrap() as usize).collect();
            let refs: Vec<String> = jobs.iter().map(outcome_of).collect();
            let (outs, x) = run_schedule(jobs, &prefix);
            if verbose {
                println!("threads: {:?}\nschedule (choices at {} points): {:?}", jobs.iter().map(|j| &j.name).collect::<Vec<_>>(), x.points.len(), prefix);
                for t in 0..jobs.len() {
                    println!("thread {t}: {}", if outs[t] == refs[t] { "equals its sequential reference".to_string() } else { format!("DIFFERS: {} vs {}", &outs[t][..outs[t].len().min(200)], &refs[t][..refs[t].len().min(200)]) });
                }
            }
            let mut cl = vec![];
            if x.diverged {
                cl.push("C12 schedule-prefix-diverged-on-replay (execution is not a function of the schedule)".to_string());
            }
            if outs != refs {
                cl.push(format!("C12 concurrent-call-result-differs-from-sequential-reference{}", if outs.iter().any(|o| o.starts_with("OPERANDS-MODIFIED")) { " (operands modified)" } else { "" }));
            }
            cl
        }
        "history" => {
            // re-run the shard prefix up to and including this history in a fresh process
            let alpha = alphabet();
            let refs = match compute_refs(&alpha) {
                Ok(r) => r,
                Err(e) => {
                    println!("MACHINERY: {e}");
                    std::process::exit(2);
                }
            };
            let rp = refs_path();
            std::fs::write(&rp, serde_json::to_string(&refs).unwrap()).unwrap();
            let hi = case["history_index"].as_u64().unwrap() as usize;
            let nsh = case["nshards"].as_u64().unwrap() as usize;
            let out = spawn_self(&["--c12-shard".into(), (hi % nsh).to_string(), nsh.to_string(), hi.to_string(), rp.clone()]);
            let _ = std::fs::remove_file(&rp);
            let mut cl = vec![];
            if let Ok(out) = out {
                for l in out.lines() {
                    if let Ok(v) = serde_json::from_str::<Value>(l) {
                        if v["dev"] == true && v["history_index"] == case["history_index"] && v["placement"] == case["placement"] && v["position"] == case["position"] {
                            if verbose {
                                println!("{l}");
                            }
                            cl.push(history_clause(&v));
                        }
                    }
                }
            }
            cl
        }
        "free" => {
            let sets = job_sets(true);
            let jobs = &sets[case["set"].as_u64().unwrap() as usize];
            let refs: Vec<String> = jobs.iter().map(outcome_of).collect();
            let shared = Arc::new(jobs.clone());
            for _ in 0..case["iterations"].as_u64().unwrap_or(300) * 4 {
                let hs: Vec<_> = (0..jobs.len())
                    .map(|t| {
                        let sh = shared.clone();
                        std::thread::spawn(move || outcome_of(&sh[t]))
                    })
                    .collect();
                let outs: Vec<String> = hs.into_iter().map(|h| h.join().unwrap_or_else(|_| "thread-panicked".into())).collect();
                if outs != refs {
                    return vec!["C12 free-running-concurrent-call-result-differs-from-sequential-reference".into()];
                }
            }
            vec![]
        }
        k => panic!("unknown C12 case {k}"),
    }
}

fn history_clause(v: &Value) -> String {
    format!(
        "C12 result-depends-on-history-or-thread ({}){}",
        v["placement"].as_str().unwrap_or(""),
        if v["operands_modified"] == true { " (operands modified)" } else { "" }
    )
}

pub fn run(tier: &str) -> i32 {
    let st = Stats::new("C12", tier);
    silence_panics();
    let thorough = tier == "thorough";
    let alpha = alphabet();
    // ---- (b) histories
    let refs = match compute_refs(&alpha) {
        Ok(r) => r,
        Err(e) => {
            println!("MACHINERY: reference child processes failed: {e}");
            return 2;
        }
    };
    // sanity: this process agrees with the fresh-process references before anything else ran
    let rp = refs_path();
    std::fs::write(&rp, serde_json::to_string(&refs).unwrap()).unwrap();
    let nshards = 16usize;
    let hist = all_histories(alpha.len(), 3);
    st.family(&format!("histories: alphabet of {} calls, every sequence of length <= 3 ({} histories) x {} thread placements, in {nshards} shard processes; reference = each call made alone in a fresh process", alpha.len(), hist.len(), PLACEMENTS.len()));
    let outs: Vec<Result<String, String>> = {
        use rayon::prelude::*;
        (0..nshards).into_par_iter().map(|s| spawn_self(&["--c12-shard".into(), s.to_string(), nshards.to_string(), "all".into(), rp.clone()])).collect()
    };
    let _ = std::fs::remove_file(&rp);
    let mut calls = 0u64;
    for o in outs {
        match o {
            Err(e) => {
                println!("MACHINERY: history shard failed: {e}");
                return 2;
            }
            Ok(s) => {
                for l in s.lines() {
                    if let Ok(v) = serde_json::from_str::<Value>(l) {
                        if v["done"] == true {
                            calls += v["calls"].as_u64().unwrap_or(0);
                        } else if v["dev"] == true {
                            let mut case = v.clone();
                            case["prop"] = json!("C12");
                            case["kind"] = json!("history");
                            case["nshards"] = json!(nshards);
                            st.violation(&history_clause(&v), format!("history:{}:{}:{}", v["history"], v["placement"], v["position"]), case);
                        }
                    }
                }
            }
        }
    }
    st.states.fetch_add((hist.len() * PLACEMENTS.len()) as u64, std::sync::atomic::Ordering::Relaxed);
    st.nontrivial.fetch_add((hist.iter().filter(|h| h.len() > 1).count() * PLACEMENTS.len()) as u64, std::sync::atomic::Ordering::Relaxed);
    st.trans(calls);
    st.add("history_calls_compared_with_fresh_process_reference", calls);
    st.add("alphabet_calls_that_unwind", refs.iter().filter(|r| r.starts_with("panic")).count() as u64);
    // ---- (c) schedules
    let mut seen = BTreeSet::new();
    let sets = job_sets(thorough);
    for (i, jobs) in sets.iter().enumerate() {
        // preemption bound 2; the thorough tier uses bound 3 for pairs of calls that are short enough for the
        // bound to be completed (at most 60 scheduling points)
        let points = run_schedule(jobs, &[]).1.points.len();
        let bound = if thorough && jobs.len() == 2 && points <= 60 { 3 } else { 2 };
        explore_jobs(&st, jobs, bound, i, &mut seen);
    }
    st.add("distinct_outcome_vectors_over_all_schedules", seen.len() as u64);
    // ---- supplement: the same job sets free-running on real parallel threads (no scheduler, no hand-offs
    // that could order accesses); sampling, not part of the exhaustive claim — a data race that only shows
    // between two hook points would need new `unsafe`/statics, which the audit below surfaces
    {
        let iters = if thorough { 2000 } else { 300 };
        let mut devs = 0u64;
        for (i, jobs) in sets.iter().enumerate() {
            let refs: Vec<String> = jobs.iter().map(outcome_of).collect();
            let shared = Arc::new(jobs.clone());
            for it in 0..iters {
                let barrier = Arc::new(std::sync::Barrier::new(jobs.len()));
                let hs: Vec<_> = (0..jobs.len())
                    .map(|t| {
                        let (sh, b) = (shared.clone(), barrier.clone());
                        std::thread::spawn(move || {
                            b.wait();
                            outcome_of(&sh[t])
                        })
                    })
                    .collect();
                let outs: Vec<String> = hs.into_iter().map(|h| h.join().unwrap_or_else(|_| "thread-panicked".into())).collect();
                if outs != refs {
                    devs += 1;
                    if devs <= 3 {
                        st.violation(
                            "C12 free-running-concurrent-call-result-differs-from-sequential-reference",
                            format!("free:{i}:{it}"),
                            json!({"prop": "C12", "kind": "free", "set": i, "iterations": iters}),
                        );
                    }
                }
            }
        }
        st.add("supplement_free_running_parallel_executions (sampling)", (iters * sets.len()) as u64);
    }
    st.add("job_sets", sets.len() as u64);
    // ---- (a) is part of every call above (operands compared bit for bit after each call)
    // ---- (d) audit
    let audit = source_audit();
    st.note(&format!("source audit of /repo/lib/src (statics, thread-locals, lazies, unsafe Send/Sync outside verif_hooks.rs): {}", if audit.is_empty() { "none".to_string() } else { audit.join(" ;; ") }));
    st.sample(json!({"history": [9, 5, 1], "calls": [alpha[9].name, alpha[5].name, alpha[1].name], "placements": PLACEMENTS}));
    st.sample(json!({"schedule_job_set": sets[0].iter().map(|j| j.name.clone()).collect::<Vec<_>>(), "example_schedule": "choices [0,...,1] = thread 0 runs up to its k-th hook point, then thread 1 runs to completion"}));
    finish(
        &st,
        "states = (history, thread placement) for every sequence of <= 3 calls over a 12-call alphabet (incl. two calls that unwind and one f32 call), plus every schedule with at most 2 (thorough: 3 for two threads) preemptions of 2-3 threads each executing one real call on shared operands, scheduling points = the library's hook points (per polygon in fill_queue, per sweep event, per contour); transition = one call compared bit for bit with the same call made alone in a fresh process (histories) or sequentially (schedules); operands compared bit for bit after every call; non-trivial = histories of length >= 2 and all schedules",
        &[
            "interleavings between two hook points are not explored (the library has no synchronisation primitive to intercept; the audit note lists any static/thread-local state in the sources)",
            "a thread that blocks outside the scheduler's control makes the schedule run free after 3 s (counted as abandoned)",
        ],
        true,
        Some(&|c| replay(c, false)),
    )
}
