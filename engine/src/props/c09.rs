//! C09: far-away parts and the early-exit shortcuts do not change the answer.
use super::base::*;
use crate::complex::*;
use crate::geom::*;
use crate::nf::*;
use crate::run::*;
use crate::stats::*;
use geo_booleanop::boolean::Operation;
use geo_types::MultiPolygon;
use rayon::prelude::*;
use serde_json::{json, Value};

fn is_far_ring(r: &Ring) -> bool {
    r.iter().all(|&(x, y)| {
        let (x, y) = (unkey(x), unkey(y));
        x.abs() >= 9.0 || y.abs() >= 9.0
    })
}

fn square(x: f64, y: f64) -> MP {
    MultiPolygon(vec![poly_from(
        &[(x, y), (x + 1.0, y), (x + 1.0, y + 1.0), (x, y + 1.0)],
        &[],
    )])
}

/// S22: faces 0..3 the 2x2 core, faces 4..7 the satellites; compare with the same pair without satellites
pub fn s22_case(fam: &Family, a: u32, b: u32, loc: &mut Local) -> Vec<String> {
    let (pa, pb) = (&fam.m[a as usize], &fam.m[b as usize]);
    let (ca, cb) = (&fam.m[(a & 15) as usize], &fam.m[(b & 15) as usize]);
    let mut cl = vec![];
    for op in OPS {
        let (o, oc) = (call(pa, pb, op), call(ca, cb, op));
        loc.transitions += 2;
        if o.early {
            loc.add("early_break_taken_with_far_parts", 1);
        }
        if oc.early {
            loc.add("early_break_taken_without_far_parts", 1);
        }
        if o.trivial {
            loc.add("bbox_shortcut_taken_with_far_parts", 1);
        }
        if oc.trivial {
            loc.add("bbox_shortcut_taken_without_far_parts", 1);
        }
        if o.trivial != oc.trivial || o.early != oc.early {
            loc.add("pairs_where_the_far_parts_switch_a_shortcut", 1);
        }
        let (r, rc) = match (o.res, oc.res) {
            (Ok(r), Ok(rc)) => (r, rc),
            _ => {
                cl.push(format!("C09 panic {}", op_name(op)));
                continue;
            }
        };
        let all = ring_set(&r, Nf::U);
        let near: Vec<Ring> = all.iter().filter(|r| !is_far_ring(r)).cloned().collect();
        let far: Vec<Ring> = all.iter().filter(|r| is_far_ring(r)).cloned().collect();
        if near != ring_set(&rc, Nf::U) {
            cl.push(format!(
                "C09 far-parts-change-the-near-rings {}",
                op_name(op)
            ));
        }
        let m = model(a, b, op) >> 4;
        let mut want: Vec<Ring> = vec![];
        for s in 0..4 {
            if (m >> s) & 1 == 1 {
                want.extend(ring_set(&fam.m[1 << (4 + s)], Nf::U));
            }
        }
        want.sort();
        if far != want {
            cl.push(format!("C09 far-parts-contribution-wrong {}", op_name(op)));
        }
        // the far parts are polygons of their own without holes, and no near polygon carries a far hole
        for p in &r.0 {
            let e = ring_nf(p.exterior(), Nf::U);
            if is_far_ring(&e)
                != p.interiors()
                    .iter()
                    .all(|h| is_far_ring(&ring_nf(h, Nf::U)))
                && !p.interiors().is_empty()
            {
                cl.push(format!(
                    "C09 far-part-nested-with-near-part {}",
                    op_name(op)
                ));
            }
            if is_far_ring(&e) && !p.interiors().is_empty() {
                cl.push(format!("C09 far-part-has-holes {}", op_name(op)));
            }
        }
    }
    cl
}

pub const DIRS: [(&str, f64, f64); 4] = [
    ("left", -100.0, 0.0),
    ("right", 100.0, 1.0),
    ("below", 0.0, -100.0),
    ("above", 1.0, 100.0),
];

/// one far unit square added to one operand of a pair of an arbitrary complex family
pub fn added_case(fam: &Family, enc: Enc, a: u32, b: u32, loc: &mut Local) -> Vec<String> {
    added_case_mp(&fam.enc(enc)[a as usize], &fam.enc(enc)[b as usize], loc)
}

/// the same on arbitrary operands with coordinates in the unit square (float table): the far square sits
/// at distance 100 and the near rings must be identical, coordinate for coordinate
pub fn added_case_mp(pa: &MP, pb: &MP, loc: &mut Local) -> Vec<String> {
    let mut cl = vec![];
    for op in OPS {
        let oc = call(pa, pb, op);
        loc.transitions += 1;
        let rc = match oc.res {
            Ok(r) => r,
            Err(_) => continue,
        };
        let base = ring_set(&rc, Nf::U);
        for side in 0..2 {
            for (dname, dx, dy) in DIRS {
                let sat = square(dx, dy);
                // the extra part is listed last or first alternately (its position is part of the input)
                let add = |mp: &MP, first: bool| {
                    let mut v = mp.0.clone();
                    if first {
                        v.insert(0, sat.0[0].clone());
                    } else {
                        v.push(sat.0[0].clone());
                    }
                    MultiPolygon(v)
                };
                for first in [false, true] {
                    let (xa, xb) = if side == 0 {
                        (add(pa, first), pb.clone())
                    } else {
                        (pa.clone(), add(pb, first))
                    };
                    let o = call(&xa, &xb, op);
                    loc.transitions += 1;
                    if o.trivial != oc.trivial || o.early != oc.early {
                        loc.add("variants_where_the_far_part_switches_a_shortcut", 1);
                    }
                    let r = match o.res {
                        Ok(r) => r,
                        Err(_) => {
                            cl.push(format!("C09 panic {}", op_name(op)));
                            continue;
                        }
                    };
                    let present = match op {
                        Operation::Union | Operation::Xor => true,
                        Operation::Difference => side == 0,
                        Operation::Intersection => false,
                    };
                    let mut want = base.clone();
                    if present {
                        want.extend(ring_set(&sat, Nf::U));
                        want.sort();
                    }
                    if ring_set(&r, Nf::U) != want {
                        cl.push(format!("C09 added-far-part-changes-result side={} dir={dname} first={first} {}", if side == 0 { "A" } else { "B" }, op_name(op)));
                    }
                }
            }
        }
    }
    cl
}

pub fn replay(case: &Value, verbose: bool) -> Vec<String> {
    let mut loc = Local::default();
    if case["kind"] == "table-added" {
        let spec = TableSpec::from_json(&case["table"]);
        let t = spec.build();
        let (a, b) = (&t.ops[case["a"].as_u64().unwrap() as usize].mp, &t.ops[case["b"].as_u64().unwrap() as usize].mp);
        if verbose {
            println!("A = {}\nB = {}", hex(a), hex(b));
        }
        return added_case_mp(a, b, &mut loc);
    }
    let fam = family_cached(case["family"].as_str().unwrap());
    let (a, b) = (
        case["a"].as_u64().unwrap() as u32,
        case["b"].as_u64().unwrap() as u32,
    );
    let enc = enc_from(case["enc"].as_str().unwrap_or("M"));
    if verbose {
        println!(
            "A = {}\nB = {}",
            hex(&fam.enc(enc)[a as usize]),
            hex(&fam.enc(enc)[b as usize])
        );
    }
    match case["kind"].as_str().unwrap() {
        "table-added" => unreachable!(),
        "s22" => s22_case(&fam, a, b, &mut loc),
        _ => added_case(&fam, enc, a, b, &mut loc),
    }
}

pub fn run(tier: &str) -> i32 {
    let st = Stats::new("C09", tier);
    silence_panics();
    let thorough = tier == "thorough";
    {
        let fam = Family::new("S22");
        let n = fam.cx.noperands();
        st.family(&format!("S22 (2x2 core + 4 satellites): all {} ordered pairs x 4 operations, each compared with the pair without satellites", n as u64 * n as u64));
        (0..n).into_par_iter().for_each(|a| {
            let mut loc = Local::default();
            for b in 0..n {
                loc.states += 1;
                if (a | b) >> 4 != 0 && fam.nontrivial(a & 15, b & 15) {
                    loc.nontrivial += 1;
                }
                for c in s22_case(&fam, a, b, &mut loc) {
                    loc.violation(
                        &c,
                        format!("S22:{a}:{b}:{}", clause_op(&c)),
                        json!({"prop": "C09", "kind": "s22", "family": "S22", "a": a, "b": b}),
                    );
                }
            }
            st.merge(&loc);
        });
        st.sample(json!({"family": "S22", "a_mask": 0b0010_0110, "b_mask": 0b1000_0011, "A": hex(&fam.m[0b0010_0110]), "B": hex(&fam.m[0b1000_0011])}));
    }
    let fams: Vec<(&str, Enc, u32)> = if thorough {
        vec![
            ("G22", Enc::M, 1),
            ("G22", Enc::U, 1),
            ("G32", Enc::M, 1),
            ("G23", Enc::M, 1),
            ("T22", Enc::M, 1),
            ("O21", Enc::M, 1),
            ("O12", Enc::M, 1),
            ("G33", Enc::M, 1),
            ("G33", Enc::U, 4),
            ("G43", Enc::M, 16),
            ("T32", Enc::M, 16),
            ("O31", Enc::M, 16),
        ]
    } else {
        vec![
            ("G22", Enc::M, 1),
            ("G32", Enc::M, 1),
            ("G23", Enc::M, 1),
            ("T22", Enc::M, 2),
            ("O21", Enc::M, 2),
            ("G33", Enc::M, 16),
        ]
    };
    for (name, enc, step) in fams {
        let fam = Family::new(name);
        let n = fam.cx.noperands();
        st.family(&format!("{name}/{}: one far unit square added (2 sides x 4 directions x listed first/last) on {} ordered pairs{}", enc.name(),
            (n as u64).div_ceil(step as u64) * n as u64, if step > 1 { format!(" (subject restricted to every {step}th operand)") } else { String::new() }));
        (0..n).into_par_iter().for_each(|a| {
            if a % step != 0 {
                return;
            }
            let mut loc = Local::default();
            for b in 0..n {
                loc.states += 1;
                if fam.nontrivial(a, b) {
                    loc.nontrivial += 1;
                }
                for c in added_case(&fam, enc, a, b, &mut loc) {
                    loc.violation(&c, format!("{name}:{}:{a}:{b}:{c}", enc.name()), json!({"prop": "C09", "kind": "added", "family": name, "enc": enc.name(), "a": a, "b": b}));
                }
            }
            st.merge(&loc);
        });
    }
    // float table: every ordered pair of triangles (thorough: of all valid operands with a triangle)
    {
        let spec = p_spec(9, st.seed, 1.0, false);
        let t = spec.build();
        let n = t.ops.len();
        let cnt = std::sync::atomic::AtomicU64::new(0);
        (0..n).into_par_iter().for_each(|ia| {
            let mut loc = Local::default();
            for ib in 0..n {
                use crate::tables::Kind;
                let (a, b) = (&t.ops[ia], &t.ops[ib]);
                let ok = if thorough { (a.kind == Kind::Tri || b.kind == Kind::Tri) && a.kind != Kind::Bowtie && b.kind != Kind::Bowtie } else { a.kind == Kind::Tri && b.kind == Kind::Tri };
                if !ok {
                    continue;
                }
                loc.states += 1;
                if crate::tables::edge_sets_interact(&a.edges, &b.edges) {
                    loc.nontrivial += 1;
                }
                for c in added_case_mp(&a.mp, &b.mp, &mut loc) {
                    loc.violation(&c, format!("{}:{ia}:{ib}:{c}", spec.name), json!({"prop": "C09", "kind": "table-added", "table": spec.json(), "a": ia, "b": ib}));
                }
            }
            cnt.fetch_add(loc.states, std::sync::atomic::Ordering::Relaxed);
            st.merge(&loc);
        });
        st.family(&format!("{}: one far unit square added (2 sides x 4 directions x first/last) on {} ordered pairs; near rings compared coordinate for coordinate", spec.name, cnt.into_inner()));
    }
    finish(
        &st,
        "state = (ordered operand pair, placement of far parts): every pair of the S22 family (satellite faces left/right/below/above on either operand) and, for the listed complex families, one far unit square added to either operand in each of 4 directions, listed first or last; transition = one call compared with the call without the far parts: identical near rings (normal form insensitive to start/direction), far parts contribute exactly what the model says; the hook flags count on how many pairs the far parts switch the bounding-box shortcut or the early break on or off; non-trivial = near parts share a boundary point",
        &["a ring counts as far if all its vertices have |x| >= 9 or |y| >= 9 (core coordinates are <= 4)"],
        true,
        Some(&|c| replay(c, false)),
    )
}
