//! Representation deviations of an operand (DESIGN 3.4): the alphabet of single deviations of C07.
use crate::geom::*;
use geo_types::{LineString, MultiPolygon, Polygon};

#[derive(Clone)]
pub struct Variant {
    pub desc: String,
    pub mp: MP,
}

fn rings_of(p: &Polygon<f64>) -> Vec<LineString<f64>> {
    std::iter::once(p.exterior().clone())
        .chain(p.interiors().iter().cloned())
        .collect()
}
fn poly_of(mut rings: Vec<LineString<f64>>) -> Polygon<f64> {
    let ext = rings.remove(0);
    Polygon::new(ext, rings)
}

fn with_ring(mp: &MP, pi: usize, ri: usize, f: &dyn Fn(&LineString<f64>) -> LineString<f64>) -> MP {
    let mut polys = mp.0.clone();
    let mut rings = rings_of(&polys[pi]);
    rings[ri] = f(&rings[ri]);
    polys[pi] = poly_of(rings);
    MultiPolygon(polys)
}

pub fn rotate_ring(r: &LineString<f64>, k: usize) -> LineString<f64> {
    // closed ring p0..pn-1,p0 -> start at pk
    let n = r.0.len() - 1;
    let mut v: Vec<_> = (0..n).map(|i| r.0[(k + i) % n]).collect();
    v.push(v[0]);
    LineString(v)
}

pub fn reverse_ring(r: &LineString<f64>) -> LineString<f64> {
    let mut v = r.0.clone();
    v.reverse();
    LineString(v)
}

pub fn repeat_vertex(r: &LineString<f64>, k: usize) -> LineString<f64> {
    let mut v = r.0.clone();
    let x = v[k];
    v.insert(k, x);
    LineString(v)
}

fn permutations(n: usize) -> Vec<Vec<usize>> {
    if n <= 3 {
        let mut out = vec![];
        let mut idx: Vec<usize> = (0..n).collect();
        fn rec(k: usize, idx: &mut Vec<usize>, out: &mut Vec<Vec<usize>>) {
            if k == idx.len() {
                out.push(idx.clone());
                return;
            }
            for i in k..idx.len() {
                idx.swap(k, i);
                rec(k + 1, idx, out);
                idx.swap(k, i);
            }
        }
        rec(0, &mut idx, &mut out);
        out.retain(|p| p.iter().enumerate().any(|(i, &j)| i != j));
        out
    } else {
        (0..n - 1)
            .map(|i| {
                let mut p: Vec<usize> = (0..n).collect();
                p.swap(i, i + 1);
                p
            })
            .collect()
    }
}

/// every single deviation of the kinds the property names (the Polygon/MultiPolygon wrapping is a
/// deviation of the *call*, handled by the caller through the trait pairings)
pub fn single_deviations(mp: &MP) -> Vec<Variant> {
    let mut out = vec![];
    for (pi, p) in mp.0.iter().enumerate() {
        for (ri, r) in rings_of(p).iter().enumerate() {
            if r.0.len() < 4 {
                continue;
            }
            let n = r.0.len() - 1;
            for k in 1..n {
                out.push(Variant {
                    desc: format!("ring-start p{pi} r{ri} k{k}"),
                    mp: with_ring(mp, pi, ri, &|r| rotate_ring(r, k)),
                });
            }
            out.push(Variant {
                desc: format!("ring-reversed p{pi} r{ri}"),
                mp: with_ring(mp, pi, ri, &reverse_ring),
            });
            for k in 0..=n {
                out.push(Variant {
                    desc: format!("repeated-vertex p{pi} r{ri} k{k}"),
                    mp: with_ring(mp, pi, ri, &|r| repeat_vertex(r, k)),
                });
            }
        }
        let nh = p.interiors().len();
        if nh > 1 {
            for perm in permutations(nh) {
                let mut polys = mp.0.clone();
                let holes: Vec<_> = perm.iter().map(|&i| p.interiors()[i].clone()).collect();
                polys[pi] = Polygon::new(p.exterior().clone(), holes);
                out.push(Variant {
                    desc: format!("hole-order p{pi} {:?}", perm),
                    mp: MultiPolygon(polys),
                });
            }
        }
    }
    if !mp.0.is_empty() {
        let all_rev = MultiPolygon(
            mp.0.iter()
                .map(|p| {
                    Polygon::new(
                        reverse_ring(p.exterior()),
                        p.interiors().iter().map(reverse_ring).collect(),
                    )
                })
                .collect(),
        );
        out.push(Variant {
            desc: "all-rings-reversed".into(),
            mp: all_rev,
        });
    }
    if mp.0.len() > 1 {
        for perm in permutations(mp.0.len()) {
            out.push(Variant {
                desc: format!("part-order {:?}", perm),
                mp: MultiPolygon(perm.iter().map(|&i| mp.0[i].clone()).collect()),
            });
        }
    }
    out
}

pub fn apply_named(mp: &MP, desc: &str) -> Option<MP> {
    single_deviations(mp)
        .into_iter()
        .find(|v| v.desc == desc)
        .map(|v| v.mp)
}
