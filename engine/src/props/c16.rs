//! C16: the pairwise intersection step splits both segments at one common, correct point.
use super::base::p_spec;
use crate::geom::*;
use crate::stats::*;
use geo_booleanop::boolean::possible_intersection::possible_intersection;
use geo_booleanop::boolean::sweep_event::{EdgeType, SweepEvent};
use geo_booleanop::boolean::Float;
use geo_types::Coord;
use rayon::prelude::*;
use serde_json::{json, Value};
use std::collections::BinaryHeap;
use std::panic::{catch_unwind, AssertUnwindSafe};
use std::rc::{Rc, Weak};

type V = (i64, i64);

fn cross(o: V, a: V, b: V) -> i128 {
    (a.0 - o.0) as i128 * (b.1 - o.1) as i128 - (a.1 - o.1) as i128 * (b.0 - o.0) as i128
}

fn mk<F: Float>(l: (F, F), r: (F, F), subj: bool, cid: u32) -> (Rc<SweepEvent<F>>, Rc<SweepEvent<F>>) {
    let re = SweepEvent::new_rc(cid, Coord { x: r.0, y: r.1 }, false, Weak::new(), subj, true);
    let le = SweepEvent::new_rc(cid, Coord { x: l.0, y: l.1 }, true, Rc::downgrade(&re), subj, true);
    re.set_other_event(&le);
    (le, re)
}

#[derive(Debug, PartialEq, Clone)]
enum Cls {
    Disjoint,
    /// collinear, touching in exactly one common end point
    Endpoint(V),
    /// one common point (num_x, num_y, den)
    Point(i128, i128, i128),
    Overlap(V, V),
}

fn on_seg(a: V, b: V, p: V) -> bool {
    cross(a, b, p) == 0 && p.0 >= a.0.min(b.0) && p.0 <= a.0.max(b.0) && p.1 >= a.1.min(b.1) && p.1 <= a.1.max(b.1)
}

/// exact integer classification of two segments a-b, c-d (a < b, c < d lexicographically)
fn classify(a: V, b: V, c: V, d: V) -> Cls {
    let (d1, d2, d3, d4) = (cross(a, b, c), cross(a, b, d), cross(c, d, a), cross(c, d, b));
    if d1 == 0 && d2 == 0 {
        let key = |p: V| if a.0 != b.0 { p.0 } else { p.1 };
        let (s0, s1) = if key(a) <= key(b) { (a, b) } else { (b, a) };
        let (o0, o1) = if key(c) <= key(d) { (c, d) } else { (d, c) };
        let lo = if key(s0) >= key(o0) { s0 } else { o0 };
        let hi = if key(s1) <= key(o1) { s1 } else { o1 };
        if key(lo) > key(hi) {
            return Cls::Disjoint;
        }
        if key(lo) == key(hi) {
            return Cls::Endpoint(lo);
        }
        return Cls::Overlap(lo, hi);
    }
    if ((d1 > 0 && d2 < 0) || (d1 < 0 && d2 > 0)) && ((d3 > 0 && d4 < 0) || (d3 < 0 && d4 > 0)) {
        let den = d1 - d2;
        return Cls::Point(c.0 as i128 * den + (d.0 - c.0) as i128 * d1, c.1 as i128 * den + (d.1 - c.1) as i128 * d1, den);
    }
    for (p, s0, s1) in [(c, a, b), (d, a, b), (a, c, d), (b, c, d)] {
        if on_seg(s0, s1, p) {
            return Cls::Point(p.0 as i128, p.1 as i128, 1);
        }
    }
    Cls::Disjoint
}

thread_local! {
    /// power-of-two factor applied to the integer coordinates when they are handed to the implementation
    /// (the exact classification is scale-invariant)
    static SCALE: std::cell::Cell<f64> = const { std::cell::Cell::new(1.0) };
}
fn sc() -> f64 {
    SCALE.with(|c| c.get())
}
fn f(v: V) -> P {
    (v.0 as f64 * sc(), v.1 as f64 * sc())
}

struct Outcome {
    rc: u8,
    queue_len: usize,
    /// division point of segment 1 / 2 (None: untouched)
    div1: Option<P>,
    div2: Option<P>,
    pieces1: Vec<(P, P, EdgeType)>,
    pieces2: Vec<(P, P, EdgeType)>,
    t1: EdgeType,
    t2: EdgeType,
}

/// fresh events, one call of the real `possible_intersection` with an empty queue, effects read back
trait From64: Float {
    fn from64(x: f64) -> Self;
}
impl From64 for f64 {
    fn from64(x: f64) -> f64 {
        x
    }
}
impl From64 for f32 {
    fn from64(x: f64) -> f32 {
        x as f32
    }
}
thread_local! {
    /// run the integer families through the f32 instantiation (the scaled coordinates must be exact in f32)
    static USE_F32: std::cell::Cell<bool> = const { std::cell::Cell::new(false) };
}
fn use_f32() -> bool {
    USE_F32.with(|c| c.get())
}

fn step(a: V, b: V, c: V, d: V, same: bool, in_out_1: bool, in_out_2: bool) -> Result<Outcome, String> {
    if use_f32() {
        step_f::<f32>(a, b, c, d, same, in_out_1, in_out_2)
    } else {
        step_f::<f64>(a, b, c, d, same, in_out_1, in_out_2)
    }
}

fn step_f<F: From64>(a: V, b: V, c: V, d: V, same: bool, in_out_1: bool, in_out_2: bool) -> Result<Outcome, String> {
    catch_unwind(AssertUnwindSafe(|| {
        let g = |p: P| (F::from64(p.0), F::from64(p.1));
        let (s1, o1) = mk::<F>(g(f(a)), g(f(b)), true, 1);
        let (s2, o2) = mk::<F>(g(f(c)), g(f(d)), same, 2);
        s1.set_in_out(in_out_1, false);
        s2.set_in_out(in_out_2, false);
        let mut q = BinaryHeap::new();
        let rc = possible_intersection(&s1, &s2, &mut q);
        let pt = |e: &Rc<SweepEvent<F>>| -> P { (e.point.x.into(), e.point.y.into()) };
        let un1 = Rc::ptr_eq(&s1.get_other_event().unwrap(), &o1);
        let un2 = Rc::ptr_eq(&s2.get_other_event().unwrap(), &o2);
        let pieces = |s: &Rc<SweepEvent<F>>, r: P| {
            let mut out = vec![];
            let mut cur = s.clone();
            for _ in 0..8 {
                let o = cur.get_other_event().unwrap();
                out.push((pt(&cur), pt(&o), cur.get_edge_type()));
                if pt(&o) == r {
                    break;
                }
                match q.iter().find(|e| e.is_left() && pt(e) == pt(&o) && e.is_subject == s.is_subject && e.contour_id == s.contour_id) {
                    Some(n) => cur = n.clone(),
                    None => {
                        out.push(((f64::NAN, f64::NAN), (f64::NAN, f64::NAN), EdgeType::Normal));
                        break;
                    }
                }
            }
            out
        };
        Outcome {
            rc,
            queue_len: q.len(),
            div1: if un1 { None } else { Some(pt(&s1.get_other_event().unwrap())) },
            div2: if un2 { None } else { Some(pt(&s2.get_other_event().unwrap())) },
            pieces1: pieces(&s1, f(b)),
            pieces2: pieces(&s2, f(d)),
            t1: s1.get_edge_type(),
            t2: s2.get_edge_type(),
        }
    }))
    .map_err(crate::run::panic_msg)
}

/// every clause on one ordered pair of integer segments
pub fn check_int(a: V, b: V, c: V, d: V, same: bool) -> Vec<String> {
    let mut cl: Vec<String> = vec![];
    let mut add = |s: String| {
        let c = format!("C16 {s}");
        if !cl.contains(&c) {
            cl.push(c);
        }
    };
    let o = match step(a, b, c, d, same, false, false) {
        Ok(o) => o,
        Err(m) => {
            add(format!("panic {}", m.chars().take(60).collect::<String>()));
            return cl;
        }
    };
    let cls = classify(a, b, c, d);
    let mag = [a, b, c, d].iter().map(|v| v.0.abs().max(v.1.abs())).max().unwrap() as f64;
    let tol = if use_f32() { 1e-6 } else { 1e-14 } * mag.max(1.0) * sc();
    let unchanged = o.queue_len == 0 && o.div1.is_none() && o.div2.is_none();
    match cls {
        Cls::Disjoint => {
            if o.rc != 0 || !unchanged {
                add("disjoint-segments-reported-or-changed".into());
            }
        }
        Cls::Endpoint(_) => {
            if !unchanged {
                add("segments-meeting-only-in-a-common-end-point-changed".into());
            }
        }
        Cls::Point(nx, ny, den) => {
            let p = (nx as f64 / den as f64 * sc(), ny as f64 / den as f64 * sc());
            // exactness is demanded where the implementation's arithmetic is exact: the true point is an end
            // point of one of the segments (T-junction): all cross products of integers below 2^25 are exact,
            // so the parameter is exactly 0 or 1 and the end point is reproduced bit for bit. For a point
            // interior to both segments the rounding tolerance applies, even if the true point happens to be
            // representable (a first version of this oracle demanded exactness there: that is more than the
            // property states and was withdrawn).
            let representable = den == 1 && [a, b, c, d].iter().any(|v| (v.0 as i128, v.1 as i128) == (nx, ny));
            let is_end = |s0: V, s1: V| den == 1 && ((nx, ny) == (s0.0 as i128, s0.1 as i128) || (nx, ny) == (s1.0 as i128, s1.1 as i128));
            let (end1, end2) = (is_end(a, b), is_end(c, d));
            if end1 && end2 {
                if !unchanged {
                    add("segments-meeting-only-in-a-common-end-point-changed".into());
                }
            } else {
                if o.rc != 1 {
                    add(format!("single-point-meeting-reported-as-{}", o.rc));
                }
                if end1 != o.div1.is_none() {
                    add(format!("first-segment-{}", if end1 { "divided-although-the-point-is-its-end-point" } else { "not-divided" }));
                }
                if end2 != o.div2.is_none() {
                    add(format!("second-segment-{}", if end2 { "divided-although-the-point-is-its-end-point" } else { "not-divided" }));
                }
                if o.queue_len != 2 * (!end1 as usize + !end2 as usize) {
                    add("not-exactly-one-division-per-segment".into());
                }
                if let (Some(x), Some(y)) = (o.div1, o.div2) {
                    if x != y {
                        add("segments-divided-at-different-points".into());
                    }
                }
                for dp in [o.div1, o.div2].into_iter().flatten() {
                    let inbox = |s0: V, s1: V| {
                        dp.0 >= s0.0.min(s1.0) as f64 * sc() && dp.0 <= s0.0.max(s1.0) as f64 * sc() && dp.1 >= s0.1.min(s1.1) as f64 * sc() && dp.1 <= s0.1.max(s1.1) as f64 * sc()
                    };
                    if !inbox(a, b) || !inbox(c, d) {
                        add("division-point-outside-a-bounding-box".into());
                    }
                    let err = ((dp.0 - p.0).powi(2) + (dp.1 - p.1).powi(2)).sqrt();
                    if representable && err != 0.0 {
                        add("division-point-inexact-although-representable".into());
                    } else if err > tol {
                        add("division-point-off-the-true-intersection".into());
                    }
                }
            }
        }
        Cls::Overlap(lo, hi) => {
            if same {
                if o.rc != 0 || !unchanged {
                    add("collinear-overlap-of-one-operand-changed".into());
                }
            } else {
                let (lo, hi) = (f(lo), f(hi));
                let has = |p: &Vec<(P, P, EdgeType)>| p.iter().any(|x| x.0 == lo && x.1 == hi);
                if !has(&o.pieces1) || !has(&o.pieces2) {
                    add("overlap-piece-missing".into());
                }
                let expect = |l: V, r: V| 1 + (f(l) != lo) as usize + (f(r) != hi) as usize;
                if o.pieces1.len() != expect(a, b) || o.pieces2.len() != expect(c, d) {
                    add("overlap-not-divided-exactly-at-its-end-points".into());
                }
                if a == c {
                    if o.t2 != EdgeType::NonContributing || o.t1 != EdgeType::SameTransition {
                        add("coincident-pieces-sharing-the-left-end-not-typed".into());
                    }
                    // different in_out flags must give DifferentTransition
                    if let Ok(o2) = step(a, b, c, d, same, true, false) {
                        if o2.t2 != EdgeType::NonContributing || o2.t1 != EdgeType::DifferentTransition {
                            add("coincident-pieces-with-opposite-in_out-not-typed-DifferentTransition".into());
                        }
                    }
                } else if o.t1 != EdgeType::Normal || o.t2 != EdgeType::Normal {
                    add("pieces-typed-although-left-ends-differ".into());
                }
            }
        }
    }
    // roles exchanged on fresh copies: same division points, same untouched set
    if let Ok(x) = step(c, d, a, b, same, false, false) {
        // note: with exchanged roles the first segment is the clipping one iff !same
        // the division point of a non-representable intersection is computed along the first segment,
        // so its last bits may depend on the order; what must not depend on it: which segments are
        // divided, how often, and the point up to the rounding tolerance (bit-identical if representable)
        let close = |p: Option<P>, q: Option<P>| match (p, q) {
            (None, None) => true,
            (Some(p), Some(q)) => ((p.0 - q.0).powi(2) + (p.1 - q.1).powi(2)).sqrt() <= tol,
            _ => false,
        };
        if !close(x.div2, o.div1) || !close(x.div1, o.div2) || x.queue_len != o.queue_len {
            add("outcome-depends-on-the-order-of-the-two-segments".into());
        }
        if x.pieces2.len() != o.pieces1.len() || x.pieces1.len() != o.pieces2.len() {
            add("pieces-depend-on-the-order-of-the-two-segments".into());
        }
        if let Cls::Point(_, _, 1) | Cls::Overlap(_, _) = cls {
            let norm = |v: &Vec<(P, P, EdgeType)>| v.iter().map(|p| (p.0, p.1)).collect::<Vec<_>>();
            if norm(&x.pieces2) != norm(&o.pieces1) || norm(&x.pieces1) != norm(&o.pieces2) {
                add("exactly-representable-pieces-depend-on-the-order-of-the-two-segments".into());
            }
        }
    }
    cl
}

fn lattice_segments(n: i64) -> Vec<(V, V)> {
    let mut pts = vec![];
    for x in 0..=n {
        for y in 0..=n {
            pts.push((x, y));
        }
    }
    let mut segs = vec![];
    for &p in &pts {
        for &q in &pts {
            if p < q {
                segs.push((p, q));
            }
        }
    }
    segs
}

fn sweep_int(st: &Stats, name: &str, segs: &[(V, V)], map: &(dyn Fn(V) -> V + Sync)) {
    sweep_int_scaled(st, name, segs, map, 0)
}

fn sweep_int_scaled(st: &Stats, name: &str, segs: &[(V, V)], map: &(dyn Fn(V) -> V + Sync), scale_exp: i32) {
    sweep_int_full(st, name, segs, map, scale_exp, false)
}

fn sweep_int_full(st: &Stats, name: &str, segs: &[(V, V)], map: &(dyn Fn(V) -> V + Sync), scale_exp: i32, f32_mode: bool) {
    let mapped: Vec<(V, V)> = segs
        .iter()
        .map(|&(p, q)| {
            let (a, b) = (map(p), map(q));
            if a < b {
                (a, b)
            } else {
                (b, a)
            }
        })
        .collect();
    st.family(&format!("{name}: {} segments, {} ordered pairs x {{different, same}} operand", mapped.len(), mapped.len() * mapped.len()));
    (0..mapped.len()).into_par_iter().for_each(|i| {
        let mut loc = Local::default();
        SCALE.with(|c| c.set(2f64.powi(scale_exp)));
        USE_F32.with(|c| c.set(f32_mode));
        let (a, b) = mapped[i];
        for &(c, d) in mapped.iter() {
            for same in [false, true] {
                loc.states += 1;
                loc.transitions += 2;
                let cls = classify(a, b, c, d);
                if cls != Cls::Disjoint {
                    loc.nontrivial += 1;
                }
                for cla in check_int(a, b, c, d, same) {
                    let key = format!("{:?}-{:?}|{:?}-{:?}|same={same}|2^{scale_exp}{}", a, b, c, d, if f32_mode { "|f32" } else { "" });
                    loc.violation(&cla, key, json!({"prop": "C16", "kind": "int", "a": [a.0, a.1], "b": [b.0, b.1], "c": [c.0, c.1], "d": [d.0, d.1], "same": same, "scale_exp": scale_exp, "f32": f32_mode}));
                }
            }
        }
        SCALE.with(|c| c.set(1.0));
        USE_F32.with(|c| c.set(false));
        st.merge(&loc);
    });
}

// ------------------------------------------------------------------------------------------------
// float segments: containment in both boxes and common division point only
// ------------------------------------------------------------------------------------------------

fn check_float<F: Float>(a: (F, F), b: (F, F), c: (F, F), d: (F, F), same: bool) -> Vec<String> {
    let mut cl = vec![];
    let r = catch_unwind(AssertUnwindSafe(|| {
        let (s1, o1) = mk::<F>(a, b, true, 1);
        let (s2, o2) = mk::<F>(c, d, same, 2);
        let mut q = BinaryHeap::new();
        let rc = possible_intersection(&s1, &s2, &mut q);
        let d1 = s1.get_other_event().unwrap();
        let d2 = s2.get_other_event().unwrap();
        let (un1, un2) = (Rc::ptr_eq(&d1, &o1), Rc::ptr_eq(&d2, &o2));
        (rc, un1, un2, (d1.point.x, d1.point.y), (d2.point.x, d2.point.y), q.len())
    }));
    let (rc, un1, un2, p1, p2, qlen) = match r {
        Ok(x) => x,
        Err(_) => {
            cl.push("C16 panic".to_string());
            return cl;
        }
    };
    let inbox = |p: (F, F), s0: (F, F), s1: (F, F)| p.0 >= s0.0.min(s1.0) && p.0 <= s0.0.max(s1.0) && p.1 >= s0.1.min(s1.1) && p.1 <= s0.1.max(s1.1);
    // signature of finding N2: the segments meet in an end point of both (right end of one = left end
    // of the other), the meeting point is recomputed inexactly and then bumped by one ulp
    let tag = if a == d || b == c { " [the segments share an end point: finding N2]" } else { "" };
    if rc == 1 {
        for (un, p) in [(un1, p1), (un2, p2)] {
            if !un && (!inbox(p, a, b) || !inbox(p, c, d)) {
                cl.push(format!("C16 division-point-outside-a-bounding-box{tag}"));
            }
        }
        if !un1 && !un2 && p1 != p2 {
            cl.push(format!("C16 segments-divided-at-different-points{tag}"));
        }
        if qlen != 2 * (!un1 as usize + !un2 as usize) {
            cl.push("C16 not-exactly-one-division-per-segment".to_string());
        }
    }
    if rc == 0 && (qlen != 0 || !un1 || !un2) {
        cl.push("C16 no-intersection-reported-but-segments-changed".to_string());
    }
    cl
}

fn table_segments(pts: &[P]) -> Vec<(P, P)> {
    let mut v = vec![];
    for &p in pts {
        for &q in pts {
            if p.0 < q.0 || (p.0 == q.0 && p.1 < q.1) {
                v.push((p, q));
            }
        }
    }
    v
}

fn sweep_float(st: &Stats, spec: &super::base::TableSpec, f32_too: bool) {
    let t = spec.build();
    let segs = table_segments(&t.pts);
    st.family(&format!("{}: {} float segments, {} ordered pairs x {{different, same}} operand{}", spec.name, segs.len(), segs.len() * segs.len(), if f32_too { ", in f64 and f32" } else { "" }));
    (0..segs.len()).into_par_iter().for_each(|i| {
        let mut loc = Local::default();
        let (a, b) = segs[i];
        for (j, &(c, d)) in segs.iter().enumerate() {
            for same in [false, true] {
                loc.states += 1;
                loc.transitions += 1;
                if proper_cross((a, b), (c, d)) {
                    loc.nontrivial += 1;
                }
                let mut cl = check_float::<f64>(a, b, c, d, same);
                if f32_too {
                    let g = |p: P| (p.0 as f32, p.1 as f32);
                    loc.transitions += 1;
                    cl.extend(check_float::<f32>(g(a), g(b), g(c), g(d), same).into_iter().map(|s| format!("{s} (f32)")));
                }
                for cla in cl {
                    loc.violation(&cla, format!("{}:seg{i}:seg{j}:same={same}", spec.name), json!({"prop": "C16", "kind": "float", "table": spec.json(), "i": i, "j": j, "same": same}));
                }
            }
        }
        st.merge(&loc);
    });
}

pub fn replay(case: &Value, verbose: bool) -> Vec<String> {
    if case["kind"] == "steepfloat" {
        let v = |k: &str| (case[k][0].as_f64().unwrap(), case[k][1].as_f64().unwrap());
        let (a, b, c, d) = (v("a"), v("b"), v("c"), v("d"));
        let same = case["same"].as_bool().unwrap();
        let mut cl = check_float::<f64>(a, b, c, d, same);
        let g = |p: P| (p.0 as f32, p.1 as f32);
        cl.extend(check_float::<f32>(g(a), g(b), g(c), g(d), same).into_iter().map(|s| format!("{s} (f32)")));
        return cl;
    }
    if case["kind"] == "float" {
        if verbose {
            debug_float(case);
        }
        let spec = super::base::TableSpec::from_json(&case["table"]);
        let t = spec.build();
        let segs = table_segments(&t.pts);
        let ((a, b), (c, d)) = (segs[case["i"].as_u64().unwrap() as usize], segs[case["j"].as_u64().unwrap() as usize]);
        let same = case["same"].as_bool().unwrap();
        let mut cl = check_float::<f64>(a, b, c, d, same);
        let g = |p: P| (p.0 as f32, p.1 as f32);
        cl.extend(check_float::<f32>(g(a), g(b), g(c), g(d), same).into_iter().map(|s| format!("{s} (f32)")));
        return cl;
    }
    let v = |k: &str| (case[k][0].as_i64().unwrap(), case[k][1].as_i64().unwrap());
    let (a, b, c, d) = (v("a"), v("b"), v("c"), v("d"));
    let same = case["same"].as_bool().unwrap();
    SCALE.with(|c| c.set(2f64.powi(case["scale_exp"].as_i64().unwrap_or(0) as i32)));
    USE_F32.with(|c| c.set(case["f32"].as_bool().unwrap_or(false)));
    if verbose {
        println!("segment 1 {:?}-{:?}, segment 2 {:?}-{:?}, same operand: {same}; exact classification {:?}", a, b, c, d, classify(a, b, c, d));
        if let Ok(o) = step(a, b, c, d, same, false, false) {
            println!("rc={} queue={} div1={:?} div2={:?} pieces1={:?} pieces2={:?}", o.rc, o.queue_len, o.div1, o.div2, o.pieces1, o.pieces2);
        }
    }
    check_int(a, b, c, d, same)
}

pub fn run(tier: &str) -> i32 {
    let st = Stats::new("C16", tier);
    crate::run::silence_panics();
    let thorough = tier == "thorough";
    let l4 = lattice_segments(4);
    sweep_int(&st, "L4 (all segments between the points of {0..4}^2)", &l4, &|v| v);
    if thorough {
        sweep_int(&st, "L12 (all segments between the points of {0..12}^2)", &lattice_segments(12), &|v| v);
    } else {
        sweep_int(&st, "L6 (all segments between the points of {0..6}^2)", &lattice_segments(6), &|v| v);
    }
    let img_base = if thorough { lattice_segments(6) } else { l4.clone() };
    let bname = if thorough { "L6" } else { "L4" };
    let big = 1i64 << 24;
    let images: Vec<(String, Box<dyn Fn(V) -> V + Sync>)> = vec![
        (format!("{bname} translated by (2^24, 0)"), Box::new(move |v: V| (v.0 + big, v.1))),
        (format!("{bname} translated by (-2^24+3, 2^24-5)"), Box::new(move |v: V| (v.0 - big + 3, v.1 + big - 5))),
        (format!("{bname} scaled by 2^22"), Box::new(|v: V| (v.0 << 22, v.1 << 22))),
        (format!("{bname} under (x,y) -> ((3*2^20+1)x + 12345, (3*2^20+1)y - 2^24)"), Box::new(move |v: V| ((3 * (1 << 20) + 1) * v.0 + 12345, (3 * (1 << 20) + 1) * v.1 - big))),
        (format!("{bname} under (x,y) -> (7x - 3y, 3x + 7y) * 2^18 (rotated and scaled)"), Box::new(|v: V| ((7 * v.0 - 3 * v.1) << 18, (3 * v.0 + 7 * v.1) << 18))),
    ];
    for (name, m) in images.iter() {
        sweep_int(&st, name, &img_base, &**m);
    }
    // the same lattice segments with all coordinates multiplied by a power of two (exact; the classification
    // is scale-invariant, so thresholds that are absolute instead of relative show up here)
    for k in [-30, -200, 40] {
        sweep_int_scaled(&st, &format!("L4 x 2^{k}"), &l4, &|v| v, k);
    }
    if thorough {
        for k in [-60, 100] {
            sweep_int_scaled(&st, &format!("L6 x 2^{k}"), &lattice_segments(6), &|v| v, k);
        }
    }
    // the single-precision instantiation on lattices whose coordinates, differences and cross products are exact in f32
    sweep_int_full(&st, "L4 in f32", &l4, &|v| v, 0, true);
    sweep_int_full(&st, "L4 x 2^-20 in f32", &l4, &|v| v, -20, true);
    sweep_int_full(&st, "L4 x 2^30 in f32", &l4, &|v| v, 30, true);
    if thorough {
        sweep_int_full(&st, "L8 in f32", &lattice_segments(8), &|v| v, 0, true);
        sweep_int_full(&st, "L6 translated by (1000, -2000) in f32", &lattice_segments(6), &|v| (v.0 + 1000, v.1 - 2000), 0, true);
    }
    // steep segments: end points in {0,1,2} x {0, +-1, +-2^24, +-(2^24-1)} (thorough: more heights)
    let mut ys = vec![0, 1, -1, big, -big, big - 1, -(big - 1)];
    ys.extend([2, -2, big / 2, -(big / 2), big - 2, 3 * (big / 4) + 1]);
    if thorough {
        ys.extend([3, -3, big / 2 + 1, -(big / 2) - 1, big - 3, -(big - 2), big / 4, 5 * (big / 8) + 1, (big / 3), -(big / 3)]);
    }
    let mut steep = vec![];
    for x0 in 0..3i64 {
        for &y0 in &ys {
            for x1 in 0..3i64 {
                for &y1 in &ys {
                    if (x0, y0) < (x1, y1) {
                        steep.push(((x0, y0), (x1, y1)));
                    }
                }
            }
        }
    }
    sweep_int(&st, &format!("steep segments ({{0,1,2}} x {} heights up to 2^24)", ys.len()), &steep, &|v| v);
    // the one-ulp bump in single precision, for negative and positive x: a steep segment (x0,H)-(x0+1,-H)
    // crossed just below its upper left end by a horizontal segment; the crossing has the x of the left end
    // after rounding to f32, so divide_segment bumps it (finding N2: the two segments are then divided at
    // different points — listed per pair); the bumped point must still lie in both bounding boxes
    {
        let mut pairs: Vec<((P, P), (P, P))> = vec![];
        for x0 in [-3i64, -2, -1, 0, 1, 2] {
            for h in [1i64 << 23, 1 << 24] {
                let steep_seg = ((x0 as f64, h as f64), ((x0 + 1) as f64, -(h as f64)));
                for dy in [1i64, 2, 3] {
                    for w in [1i64, 2] {
                        let hor = (((x0 - w) as f64, (h - dy) as f64), ((x0 + w) as f64, (h - dy) as f64));
                        pairs.push((steep_seg, hor));
                        pairs.push((hor, steep_seg));
                    }
                }
            }
        }
        st.family(&format!("bump family: {} ordered pairs (steep segment (x0,H)-(x0+1,-H) x horizontal segment just below its upper left end; x0 in -3..2, H in 2^23, 2^24) x {{different, same}} operand, float clauses in f64 and f32", pairs.len()));
        for ((a, b), (c, d)) in pairs {
            for same in [false, true] {
                st.state(true);
                st.trans(2);
                let mut cl = check_float::<f64>(a, b, c, d, same);
                let g = |p: P| (p.0 as f32, p.1 as f32);
                cl.extend(check_float::<f32>(g(a), g(b), g(c), g(d), same).into_iter().map(|s| format!("{s} (f32)")));
                for cla in cl {
                    st.violation(
                        &cla,
                        format!("steepfloat:{:?}-{:?}|{:?}-{:?}|same={same}", a, b, c, d),
                        json!({"prop": "C16", "kind": "steepfloat", "a": [a.0, a.1], "b": [b.0, b.1], "c": [c.0, c.1], "d": [d.0, d.1], "same": same}),
                    );
                }
            }
        }
    }
    // The float-segment tables of C16 have a FIXED seed (they do not follow VERIF_SEED): two segments
    // that share an end point (right end of one = left end of the other) hit finding N2 on roughly one
    // table in five in f32 and on some 16-point tables in f64, so the failing segment pairs are listed
    // individually in known_findings.jsonl, which needs a table that never changes.
    let fixed = super::base::F32_TABLE_SEED;
    sweep_float(&st, &p_spec(9, fixed, 1.0, false), true);
    if thorough {
        sweep_float(&st, &p_spec(16, fixed, 1.0, false), true);
        sweep_float(&st, &p_spec(16, fixed, 1.1 * 1048576.0, false), true);
    }
    st.sample(json!({"segment_1": [[0, 0], [4, 4]], "segment_2": [[0, 3], [3, 0]], "same_operand": false, "exact_classification": "one common point (3/2, 3/2), interior to both"}));
    st.sample(json!({"segment_1": [[0, 1], [4, 1]], "segment_2": [[2, 1], [3, 1]], "same_operand": false, "exact_classification": "collinear overlap (2,1)-(3,1)"}));
    finish(
        &st,
        "state = (ordered pair of segments, operand relation); transition = one call of the public possible_intersection on fresh event pairs with an empty queue (plus the call with exchanged roles), effects read back from the return code, the queue and the other-event links; reference = exact integer classification (disjoint / common end point / single point with exact rational coordinates / collinear overlap); float segments: containment in both boxes and common division point only; non-trivial = the segments share at least one point",
        &["integer coordinates below 2^25: all cross products are exact in i128 and in f64", "tolerance for non-representable intersection points: 1e-14 x coordinate magnitude"],
        true,
        Some(&|c| replay(c, false)),
    )
}

#[allow(dead_code)]
pub fn debug_float(case: &Value) {
    let spec = super::base::TableSpec::from_json(&case["table"]);
    let t = spec.build();
    let segs = table_segments(&t.pts);
    let ((a, b), (c, d)) = (segs[case["i"].as_u64().unwrap() as usize], segs[case["j"].as_u64().unwrap() as usize]);
    let g = |p: P| (p.0 as f32, p.1 as f32);
    let (a, b, c, d) = (g(a), g(b), g(c), g(d));
    let (s1, _o1) = mk::<f32>(a, b, true, 1);
    let (s2, _o2) = mk::<f32>(c, d, case["same"].as_bool().unwrap(), 2);
    let mut q = BinaryHeap::new();
    let rc = possible_intersection(&s1, &s2, &mut q);
    println!("f32 seg1 {:?}-{:?} seg2 {:?}-{:?} rc={rc}", a, b, c, d);
    println!("div1 {:?} div2 {:?}", s1.get_other_event().unwrap().point, s2.get_other_event().unwrap().point);
}
