//! Watchdog: turns a call of the implementation that does not return into a verdict instead of a
//! check that never ends. Every observed call registers itself in a slot (start time + borrowed
//! pointers to its operands); a watchdog thread looks at the slots once per second.
//!  * property C03 (which owns "runaway loop"): the stuck call is written out as a replay file and
//!    reported as a VIOLATION, exit 1;
//!  * every other property: MACHINERY message, exit 2 (no verdict) — C03 is the check to run.
use crate::geom::*;
use crate::run::{op_name, Ft};
use geo_booleanop::boolean::Operation;
use serde_json::json;
use std::sync::atomic::{AtomicPtr, AtomicU64, AtomicU8, AtomicUsize, Ordering};
use std::sync::OnceLock;
use std::time::Instant;

pub const LIMIT_MS: u64 = 30_000;
const NSLOTS: usize = 256;

struct Slot {
    start_ms: AtomicU64, // 0 = idle
    a: AtomicPtr<MP>,
    b: AtomicPtr<MP>,
    desc: AtomicPtr<String>,
    op: AtomicU8,
    ft: AtomicU8,
}

#[allow(clippy::declare_interior_mutable_const)]
const EMPTY: Slot = Slot {
    start_ms: AtomicU64::new(0),
    a: AtomicPtr::new(std::ptr::null_mut()),
    b: AtomicPtr::new(std::ptr::null_mut()),
    desc: AtomicPtr::new(std::ptr::null_mut()),
    op: AtomicU8::new(0),
    ft: AtomicU8::new(0),
};
static SLOTS: [Slot; NSLOTS] = [EMPTY; NSLOTS];
static NEXT: AtomicUsize = AtomicUsize::new(0);
static T0: OnceLock<Instant> = OnceLock::new();
static PROP: OnceLock<String> = OnceLock::new();

thread_local! {
    static MY: usize = NEXT.fetch_add(1, Ordering::Relaxed) % NSLOTS;
}

fn now_ms() -> u64 {
    T0.get_or_init(Instant::now).elapsed().as_millis() as u64 + 1
}

pub struct Guard(usize, u64);
impl Drop for Guard {
    fn drop(&mut self) {
        // only clear if this guard still owns the slot (nested guards restore nothing: inner wins)
        let _ = SLOTS[self.0].start_ms.compare_exchange(self.1, 0, Ordering::SeqCst, Ordering::SeqCst);
    }
}

fn op_code(op: Operation) -> u8 {
    match op {
        Operation::Intersection => 0,
        Operation::Union => 1,
        Operation::Difference => 2,
        Operation::Xor => 3,
    }
}

/// registers a call of the implementation on borrowed operands
pub fn enter_call(a: &MP, b: &MP, op: Operation, ft: Ft) -> Guard {
    let i = MY.with(|m| *m);
    let s = &SLOTS[i];
    s.a.store(a as *const MP as *mut MP, Ordering::SeqCst);
    s.b.store(b as *const MP as *mut MP, Ordering::SeqCst);
    s.desc.store(std::ptr::null_mut(), Ordering::SeqCst);
    s.op.store(op_code(op), Ordering::SeqCst);
    s.ft.store(if ft == Ft::F32 { 1 } else { 0 }, Ordering::SeqCst);
    let t = now_ms();
    s.start_ms.store(t, Ordering::SeqCst);
    Guard(i, t)
}

/// registers any other piece of work, described by a string that outlives the guard
pub fn enter_desc(desc: &String) -> Guard {
    let i = MY.with(|m| *m);
    let s = &SLOTS[i];
    s.a.store(std::ptr::null_mut(), Ordering::SeqCst);
    s.desc.store(desc as *const String as *mut String, Ordering::SeqCst);
    let t = now_ms();
    s.start_ms.store(t, Ordering::SeqCst);
    Guard(i, t)
}

pub fn start(prop: &str) {
    let _ = PROP.set(prop.to_string());
    let _ = now_ms();
    std::thread::Builder::new()
        .name("watchdog".into())
        .spawn(|| loop {
            std::thread::sleep(std::time::Duration::from_millis(1000));
            let now = now_ms();
            for s in SLOTS.iter() {
                let t = s.start_ms.load(Ordering::SeqCst);
                if t != 0 && now.saturating_sub(t) > LIMIT_MS {
                    report(s, now - t);
                }
            }
        })
        .unwrap();
}

fn report(s: &Slot, ms: u64) -> ! {
    use std::io::Write;
    let prop = PROP.get().cloned().unwrap_or_default();
    let (pa, pb, pd) = (s.a.load(Ordering::SeqCst), s.b.load(Ordering::SeqCst), s.desc.load(Ordering::SeqCst));
    let mut code = 2;
    if !pa.is_null() && !pb.is_null() {
        // SAFETY: the worker is stuck inside the call and holds shared borrows of both operands
        let (a, b) = unsafe { (&*pa, &*pb) };
        let op = crate::run::OPS[s.op.load(Ordering::SeqCst) as usize];
        let ft = if s.ft.load(Ordering::SeqCst) == 1 { "f32" } else { "f64" };
        let case = json!({"prop": "C03", "kind": "raw", "A": hex_bits(a), "B": hex_bits(b), "A_readable": hex(a), "B_readable": hex(b),
            "op": op_name(op), "ft": ft, "clause": format!("C03 no-return-within-{}s {}", LIMIT_MS / 1000, op_name(op)), "flavour": crate::run::flavour()});
        let path = format!("{}/replays/C03-hang-{}.json", crate::stats::VERIF_DIR, std::process::id());
        let _ = std::fs::create_dir_all(format!("{}/replays", crate::stats::VERIF_DIR));
        let _ = std::fs::write(&path, serde_json::to_string_pretty(&case).unwrap());
        if prop == "C03" {
            println!("VIOLATION property=C03 replay={path} clause=C03 no-return-within-{}s {} (call running for {} ms)", LIMIT_MS / 1000, op_name(op), ms);
            code = 1;
        } else {
            println!(
                "MACHINERY: a call of the implementation has not returned for {} ms while checking {prop} ({} {}); no verdict for {prop}. The input is saved as {path}; `./check C03 quick` owns runaway loops.",
                ms,
                op_name(op),
                ft
            );
        }
    } else if !pd.is_null() {
        let d = unsafe { &*pd };
        println!("MACHINERY: a step of the check of {prop} has not returned for {ms} ms: {}", d.chars().take(300).collect::<String>());
    } else {
        println!("MACHINERY: a step of the check of {prop} has not returned for {ms} ms");
    }
    let _ = std::io::stdout().flush();
    unsafe { libc::_exit(code) }
}
