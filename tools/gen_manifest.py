#!/usr/bin/env python3
"""Generates /verif/MANIFEST.json from the table below (kept in one place so that it stays valid)."""
import json, os, subprocess

ASSUME_BASE = ("Trusted base: the engine's oracles (exact predicates from crate `robust`, integer/bitmask reference "
               "models), the Rust compiler, the verif-hooks feature being observation-only. Nothing is claimed outside "
               "the enumerated families and bounds listed in the evidence file.")

CHECKS = {
    "C01": dict(
        text="Bounded-exhaustive model checking of the real BooleanOp implementation: every ordered operand pair of the "
             "cell-complex families (every union of faces; two encodings) x 4 operations x applicable trait pairings is "
             "executed and compared face by face with the bitmask reference model; general-position float tables "
             "(triangles, quadrilaterals, pentagons, bow-ties read even-odd, holed and two-part operands; a designed 'spike' table "
             "for crossings found only after a removal) and the lattice-triangle families L2i, L2s, L3i against exact even-odd "
             "membership at one witness per arrangement face. Hook counters show that each of twelve shortcut paths of the "
             "implementation is taken. Exhaustive within the listed families, nothing outside them.",
        ref="DESIGN.md 3, 4.1, 5 (C01)",
        technique="bounded-exhaustive enumeration of real code against a reference model (explicit-state, no sampling)"),
    "C02": dict(
        text="Same exhaustive enumeration as C01; every result is checked with an exact structural oracle: each result edge "
             "decomposes into 1-cells of the complex and no 1-cell is used twice over all rings (no shared or repeated boundary "
             "segment), each hole lies inside its own exterior and outside its siblings (face sets by exact parity), polygons "
             "are disjoint, polygon-wise reading == even-odd reading on every face; on float tables exact pairwise "
             "crossing/overlap tests of result edges plus witness-based nesting.",
        ref="DESIGN.md 4.2, 5 (C02)",
        technique="bounded-exhaustive enumeration of real code with an exact structural invariant on every result"),
    "C03": dict(
        text="Exhaustive enumeration of the same families in BOTH build flavours (release and optimised-with-debug-assertions "
             "binaries) and in f32 and f64, plus every degenerate encoding the property names on one or both sides of every "
             "G22/T22 pair, plus a scenario matrix of 10^4..10^6-edge inputs each run in a child process on the default stack. "
             "Oracle: the call returns (no unwind, no signal, no timeout) and the hook counter of popped sweep events stays "
             "below 4n^2+4n+16; a budget at 8x that turns a runaway sweep into a distinctive panic.",
        ref="DESIGN.md 5 (C03), 6",
        technique="bounded-exhaustive enumeration over inputs x build configurations with an event-budget hook; scenario matrix in child processes"),
    "C04": dict(
        text="Same exhaustive enumeration; provenance oracle with exact predicates: every result edge lies exactly on one input "
             "edge, every result vertex is bit-identical to an input vertex or lies exactly on two non-collinear input edges "
             "(tolerance 0 on complex families, 1e-9 x magnitude with a rational reference on float/lattice families), rings "
             "closed, >= 3 distinct vertices, non-zero area, counter-clockwise unless the independently recomputed bounding-box "
             "shortcut predicate holds (which must agree with the hook flag).",
        ref="DESIGN.md 4.2, 5 (C04)",
        technique="bounded-exhaustive enumeration of real code with exact provenance predicates on every result"),
    "C05": dict(
        text="Same exhaustive enumeration; the five results I, U, A-B, B-A, X of each pair are compared with each other (not with "
             "the model): pairwise disjointness, cover of the union, X = (A-B)+(B-A) on every face witness, and the three area "
             "identities exactly (complex families: all areas are multiples of 1/4) or within 1e-9 relative (float tables).",
        ref="DESIGN.md 5 (C05)",
        technique="bounded-exhaustive enumeration of real code, differential oracle between the four operations"),
    "C06": dict(
        text="Exhaustive enumeration of law instances on the real implementation: operand swap for intersection/union/xor on every "
             "unordered pair of the quick complex families in both encodings (identical ring sets up to ring start), A op A for every "
             "operand (region, validity, boundary cell set == boundary of A; empty result for difference/xor), three encodings of "
             "the empty operand on either side for all four operations, and every pair with B translated to a touching or separated "
             "bounding box along x and y (obvious combination as region, and ring for ring where the boxes are disjoint); float table: "
             "swap compared as regions.",
        ref="DESIGN.md 5 (C06)",
        technique="bounded-exhaustive enumeration of algebraic law instances on real code (explicit-state, no sampling)"),
    "C07": dict(
        text="Deviation-bounded exhaustive exploration: every ordered pair of the listed complex families is re-run under every single "
             "deviation of the kinds the property names (each other ring start, each ring reversed, all reversed, part and hole "
             "permutations, a repeated vertex at every position, the four trait implementations); thorough adds every pair of "
             "deviations (one per side) on G22/G32. The result's ring set in a normal form insensitive to start, direction and repeated "
             "vertices must equal the canonical call's; float table: regions at witnesses.",
        ref="DESIGN.md 3.4, 5 (C07)",
        technique="deviation-bounded exhaustive enumeration (bound 1 quick, 2 thorough) of representations on real code"),
    "C08": dict(
        text="Every ordered pair of the listed families x 7 power-of-two scalings (bit-identical scaled result, also on the float table "
             "where arithmetic is inexact) x 5 integer translations (identical translated ring sets, exact families) x 7 axis symmetries "
             "(region at transformed witnesses equals the model).",
        ref="DESIGN.md 5 (C08)",
        technique="bounded-exhaustive enumeration of (input, transform) pairs on real code, metamorphic oracle"),
    "C09": dict(
        text="Every ordered pair of the S22 family (2x2 core plus satellites left/right/below/above on either operand) is compared with the "
             "same pair without satellites: identical near rings, far parts contribute exactly per the model; every pair of further "
             "families is re-run with one far square added to either operand in 4 directions, listed first or last. Hook flags record "
             "on how many pairs the far parts switch the bounding-box shortcut or the early break on or off (both paths are taken).",
        ref="DESIGN.md 5 (C09)",
        technique="bounded-exhaustive enumeration on real code, differential oracle with/without far parts; shortcut paths observed by hooks"),
    "C10": dict(
        text="Every pair of every complex family is executed in f32 and f64: widened f32 result bit-identical to the f64 result and the "
             "same number of sweep events; the region/structure/provenance/consistency oracles of C01 C02 C04 C05 are evaluated on the "
             "f32 results; a general-position table rounded to f32 and an integer table whose coordinates are exact in f32 but whose "
             "differences are not are checked with single-precision tolerance; 48 near-collinear apex fans are run end to end "
             "(f32 bit-identical to f64; failing members of the unchanged tree listed as known findings N3); small complexes are also run with "
             "every coordinate multiplied by 2^-24, 2^24, 2^33 and 2^45 (f64 result == scaled result, f32 result == f64 result, bit for bit; "
             "the scale 2^-40 on T22 single faces documents finding N4).",
        ref="DESIGN.md 5 (C10)",
        technique="bounded-exhaustive enumeration over inputs x float type on real code, differential f32/f64 oracle"),
    "C13": dict(
        text="Every ordered pair of the listed families x 4 operations is pushed through the public fill_queue and subdivide stages of "
             "the real implementation; with exact predicates: two mutually linked events per input edge, exact boxes; all pairs of "
             "processed sub-segments are disjoint / share end points only / coincide completely and belong to different operands; the "
             "sub-segments on each input edge chain from its start to its end (union/xor).",
        ref="DESIGN.md 5 (C13)",
        technique="bounded-exhaustive enumeration of real code with an exact planar-subdivision invariant on every returned event set"),
    "C14": dict(
        text="Same runs as C13; for every processed sub-segment the recorded in_out, other_in_out, edge type, in_result, result "
             "transition (coincident twins: exactly one carries the boundary with the combined direction) and prev_in_result are "
             "compared with what exact membership of two side points in the operands implies (face bitmasks on complexes, exact "
             "even-odd on the float table); where the nearest lower sub-segment is unique and a result boundary, the recorded "
             "prev_in_result must be that edge (or the first part of the same edge ending at the point).",
        ref="DESIGN.md 5 (C14)",
        technique="bounded-exhaustive enumeration of real code against a geometric reference classification of every sub-segment"),
    "C15": dict(
        text="Same runs; Ord::cmp on every ordered pair of events before and after subdivision is compared with an independently "
             "written reference order (never Equal, antisymmetric), every triple of events sharing a point is checked for transitivity; "
             "compare_segments on every ordered pair of processed left events with overlapping x-extent (Equal only for identity, "
             "antisymmetric, agreeing with the exact vertical order of separated non-crossing segments), also on the input edges before "
             "subdivision (T-junctions); the f32 event and segment orders of 4 000 near-collinear apex fans against the exact angular order.",
        ref="DESIGN.md 5 (C15)",
        technique="exhaustive pairwise/triple-wise check of the real comparison functions on all event sets of a bounded input family"),
    "C16": dict(
        text="Every ordered pair of segments of small integer lattices (quick {0..6}^2, thorough {0..10}^2), of their large-coordinate "
             "affine images (coordinates up to 2^25) and of a steep family, as same-operand and different-operand pairs, is given to the "
             "public possible_intersection on fresh events; return code, queue and links are compared with an exact integer "
             "classification (disjoint / common end point / single point with rational coordinates / collinear overlap), also with "
             "exchanged roles, under power-of-two scalings, and in the f32 instantiation on exact lattices; float segments of fixed-seed "
             "tables and a designed f32 'bump' family (steep x horizontal, negative and positive x): box containment and common division point.",
        ref="DESIGN.md 5 (C16)",
        technique="bounded-exhaustive enumeration of segment pairs on the real intersection step against an exact integer reference"),
    "C11": dict(
        text="Explicit-state search over result representations: a state is a multipolygon exactly as the implementation returned it "
             "(no normalisation), keyed by its exact coordinate list and labelled with its model mask; from both encodings of every face "
             "set, op(X, Y) is executed for every ordered pair of known states and every operation, judged against the bitmask model and "
             "the structural oracle, and new results join the state set until a fixpoint is reached (G22, G32 quick; G23, T22, O21, O12 "
             "thorough; G33 to depth 2; quick additionally feeds every non-simple depth-1 result of G33 back in against all operands) - "
             "covering chained operations of every length incl. re-used operands. Float clause: every "
             "triangle triple of the table with an independent third operand x 16 operation pairs x both nesting sides.",
        ref="DESIGN.md 5 (C11)",
        technique="explicit-state BFS to fixpoint over real results with canonical-state deduplication, checked against a bitmask model"),
    "C12": dict(
        text="(histories) every sequence of <= 3 calls over a 12-call alphabet (incl. two calls that unwind and one f32 call) under three "
             "thread placements, each result compared bit for bit with the same call made alone in a fresh process; (schedules) stateless "
             "exploration of every schedule with <= 2 preemptions (thorough: 3) of 2-3 real threads each executing one real call on shared "
             "operands, scheduling points = the library's hook points, default-first DFS as in iterative context bounding, each thread's "
             "result compared with its sequential reference; operands compared bit for bit after every call; a source audit of statics "
             "is recorded as context.",
        ref="DESIGN.md 5 (C12)",
        technique="stateless schedule exploration with a preemption bound under a baton scheduler at hook points; exhaustive short call histories x thread placements"),
    "C17": dict(
        text="Explicit-state search over splay-tree shapes: state = operation history, canonical key = Debug rendering of the tree (lookups "
             "splay, so they are transitions); every operation of SplayTree and SplaySet over 6 keys (7 thorough), 2 values and "
             "out-of-range probes is executed on a fresh replay of the real tree and compared with BTreeMap/BTreeSet, breadth-first to the "
             "fixpoint (17 845 shapes for 6 keys); in every state: consuming iteration under every front/back pattern and every partial "
             "consumption then drop, a live-instance balance, and reference stability under every sequence of <= 2 (3) further lookups.",
        ref="DESIGN.md 5 (C17)",
        technique="explicit-state BFS to fixpoint over the real data structure against a BTreeMap reference model"),
    "C18": dict(
        text="Stack-span probe (key type whose Drop and comparator record a stack address) on chains of 8..16384 keys for 6 teardown paths "
             "and 6 operations x 3 insertion orders: the span must not grow with the height (a recursive teardown is decided at height 16, "
             "no crash needed); all tree shapes of the C17 search torn down by all paths; a matrix of child processes (4 insertion orders "
             "x 10^5 / 3*10^6 keys x 8 actions x 8 MiB main stack / 2 MiB thread) and Boolean operations whose sweep stops early with "
             "~5*10^5 segments in the status structure, judged by exit status.",
        ref="DESIGN.md 5 (C18)",
        technique="exhaustive small-scope stack-span probing of the real tree plus a scenario matrix in child processes"),
}

NOT_YET = "check under construction in this round (designed in DESIGN.md section 5, not yet registered)"

def main():
    props = [json.loads(l) for l in open("/verif/properties.jsonl")]
    ids = [p["id"] for p in props]
    commits = subprocess.run(["git", "-C", "/repo", "log", "--format=%H %s"], capture_output=True, text=True).stdout.splitlines()
    hook_commits = [c.split()[0] for c in commits if "verif-hooks" in c or "verification hook" in c.lower()]
    checks = []
    for pid in ids:
        if pid not in CHECKS:
            continue
        c = CHECKS[pid]
        checks.append({
            "property_id": pid,
            "quick_cmd": f"./check {pid} quick",
            "thorough_cmd": f"./check {pid} thorough",
            "evidence_file": f"/verif/evidence/{pid}.json",
            "replay_cmd_template": "./check --replay {path}",
            "engine": "verif-engine",
            "level_claimed": {"category": "model_checking", "text": c["text"], "design_ref": c["ref"]},
            "level_note": c.get("note", ASSUME_BASE),
            "technique": c["technique"],
        })
    manifest = {
        "version": 1,
        "setup_cmd": "./check --setup",
        "hooks": {
            "guard": "cargo feature verif-hooks of crate geo-booleanop (lib/Cargo.toml)",
            "enable": "the engine depends on geo-booleanop by path (/repo/lib) with features=[\"verif-hooks\"]; every check runs `cargo build --offline` first, which recompiles the library from /repo's working tree",
            "baseline_off_cmd": "cd /repo && cargo test --workspace --no-fail-fast --offline",
            "source_commits": hook_commits,
            "add_only": True,
        },
        "engines": [{
            "name": "verif-engine",
            "path": "/verif/engine",
            "serves_properties": [c["property_id"] for c in checks],
            "kind_free_text": "Rust binary linking the real library: bounded-exhaustive enumeration over finite operand families against reference models, explicit-state BFS to fixpoint (result representations, splay-tree shapes), baton scheduler with preemption bound at hook points",
        }],
        "checks": checks,
        "not_applicable": [{"property_id": pid, "reason": NOT_YET} for pid in ids if pid not in CHECKS],
        "notes": "Exit codes of ./check: 0 held (KNOWN-FINDING lines possible), 1 VIOLATION, 2 machinery problem. "
                 "Known findings: /verif/known_findings.jsonl (never written at run time). Seeded breakages: /verif/seeded/.",
    }
    json.dump(manifest, open("/verif/MANIFEST.json", "w"), indent=1)
    print("MANIFEST.json written:", len(checks), "checks,", len(manifest["not_applicable"]), "not_applicable")

if __name__ == "__main__":
    main()
