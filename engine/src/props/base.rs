//! The base enumeration shared by C01 C02 C03 C04 C05 (and C10 in f32): every ordered operand pair of
//! every family x every operation, each oracle evaluated on the real implementation's result.
use crate::complex::*;
use crate::geom::*;
use crate::oracle::*;
use crate::run::*;
use crate::stats::*;
use crate::tables::*;
use geo_booleanop::boolean::Operation;
use rayon::prelude::*;
use serde_json::{json, Value};

#[derive(Clone, Copy, Default)]
pub struct Want {
    pub c01: bool,
    pub c02: bool,
    pub c03: bool,
    pub c04: bool,
    pub c05: bool,
    /// also run the other applicable trait implementations and compare bit for bit (C01 only)
    pub pairings: bool,
}

impl Want {
    pub fn for_prop(p: &str) -> Want {
        let mut w = Want::default();
        match p {
            "C01" => {
                w.c01 = true;
                w.pairings = true;
            }
            "C02" => w.c02 = true,
            "C03" => w.c03 = true,
            "C04" => w.c04 = true,
            "C05" => w.c05 = true,
            "C10" => {
                w.c01 = true;
                w.c02 = true;
                w.c04 = true;
                w.c05 = true;
            }
            _ => panic!("base sweep does not serve {p}"),
        }
        w
    }
}

/// the operation a clause is about (its last word), or "pair" for clauses about all operations of a pair
pub fn clause_op(clause: &str) -> &str {
    let last = clause.rsplit(' ').next().unwrap_or("");
    if clause.starts_with("C03 panic") {
        // "C03 panic <op>: msg"
        return clause
            .split(' ')
            .nth(2)
            .unwrap_or("pair")
            .trim_end_matches(':');
    }
    match last {
        "intersection" | "union" | "difference" | "xor" => last,
        _ => "pair",
    }
}

/// identity of a failing input for the known-findings file: family, operands, float type, operation
/// (and the build flavour for C03, which quantifies over builds)
pub fn finding_key(prop: &str, base: &str, clause: &str) -> String {
    if prop == "C03" {
        format!("{base}:{}:{}", clause_op(clause), flavour())
    } else {
        format!("{base}:{}", clause_op(clause))
    }
}

fn short(msg: &str) -> String {
    let m: String = msg.chars().take(70).collect();
    m.replace('\n', " ")
}

// ------------------------------------------------------------------------------------------------
// complex families
// ------------------------------------------------------------------------------------------------

pub fn complex_case_json(prop: &str, fam: &str, enc: Enc, a: u32, b: u32, ft: Ft) -> Value {
    json!({"prop": prop, "kind": "complex", "family": fam, "enc": enc.name(), "a": a, "b": b, "ft": ft.name()})
}

/// All oracles wanted, on one ordered pair of one complex family. Returns clause strings.
pub fn complex_pair(
    fam: &Family,
    enc: Enc,
    a: u32,
    b: u32,
    ft: Ft,
    want: &Want,
    loc: &mut Local,
) -> Vec<String> {
    let cx = &fam.cx;
    let (pa, pb) = (&fam.enc(enc)[a as usize], &fam.enc(enc)[b as usize]);
    let mut cl: Vec<String> = vec![];
    let mut results: Vec<Option<MP>> = vec![];
    let n = n_edges(pa, pb);
    for op in OPS {
        let o = call_full(pa, pb, op, ft, Pairing::MM);
        loc.transitions += 1;
        if o.early {
            loc.add("early_break_taken", 1);
        }
        if o.trivial {
            loc.add("bbox_shortcut_taken", 1);
        }
        o.count_paths(loc);
        let res = match o.res {
            Err(msg) => {
                loc.add("panics", 1);
                if want.c03 {
                    cl.push(format!("C03 panic {}: {}", op_name(op), short(&msg)));
                }
                results.push(None);
                continue;
            }
            Ok(r) => r,
        };
        if want.c03 {
            if o.events > event_bound(n) {
                cl.push(format!("C03 events-above-bound {}", op_name(op)));
            }
            if n > 0 {
                loc.max(
                    "max_events_over_2n2",
                    o.events as f64 / (2.0 * (n * n) as f64),
                );
            }
        }
        if want.c01 {
            let (m, _, _) = cx.mask_of(&res);
            if m != model(a, b, op) {
                cl.push(format!("C01 region-mismatch {}", op_name(op)));
            }
            for p in [Pairing::PM, Pairing::MP, Pairing::PP] {
                if want.pairings && pairing_applicable(pa, pb, p) {
                    let o2 = call_full(pa, pb, op, ft, p);
                    loc.transitions += 1;
                    loc.add("trait_pairing_calls", 1);
                    match o2.res {
                        Ok(r2) if mp_bits_eq(&r2, &res) => {}
                        _ => cl.push(format!("C01 trait-pairing-differs {:?} {}", p, op_name(op))),
                    }
                }
            }
        }
        if want.c02 {
            let mut v = vec![];
            complex_structural(cx, &res, &mut v);
            v.sort();
            v.dedup();
            for s in v {
                cl.push(format!("{s} {}", op_name(op)));
            }
        }
        if want.c04 {
            let mut v = vec![];
            let shortcut = boxes_disjoint(pa, pb);
            if shortcut != o.trivial {
                v.push("C04 shortcut-predicate-disagrees");
            }
            ring_checks(&res, !shortcut, &mut v);
            provenance(pa, pb, &res, 0.0, &mut v);
            // exactness: every coordinate is a vertex of the complex (all true intersection points are)
            if mp_edges(&res)
                .iter()
                .any(|&(p, q)| cx.decompose(p, q).is_none())
            {
                v.push("C04 inexact-coordinate");
            }
            v.sort();
            v.dedup();
            for s in v {
                cl.push(format!("{s} {}", op_name(op)));
            }
        }
        results.push(Some(res));
    }
    if want.c05 {
        let o = call_full(pb, pa, Operation::Difference, ft, Pairing::MM);
        loc.transitions += 1;
        if let (Some(i), Some(u), Some(d), Some(x), Ok(e)) =
            (&results[0], &results[1], &results[2], &results[3], &o.res)
        {
            let (mi, mu, md, mx, me) = (
                cx.mask_of(i).0,
                cx.mask_of(u).0,
                cx.mask_of(d).0,
                cx.mask_of(x).0,
                cx.mask_of(e).0,
            );
            if mi & md != 0 || mi & me != 0 || md & me != 0 {
                cl.push("C05 parts-not-disjoint".into());
            }
            if mi | md | me != mu {
                cl.push("C05 parts-do-not-cover-union".into());
            }
            if mx != md | me {
                cl.push("C05 xor!=union-of-differences".into());
            }
            let (ai, au, ad, ax) = (mp_area(i), mp_area(u), mp_area(d), mp_area(x));
            let (aa, ab) = (mp_area(pa), mp_area(pb));
            if ai + au != aa + ab {
                cl.push("C05 area(I)+area(U)!=area(A)+area(B)".into());
            }
            if ax != au - ai {
                cl.push("C05 area(X)!=area(U)-area(I)".into());
            }
            if ad != aa - ai {
                cl.push("C05 area(A-B)!=area(A)-area(I)".into());
            }
        } else {
            loc.add("c05_skipped_panicking_pairs", 1);
        }
    }
    cl
}

pub fn sweep_complex(st: &Stats, prop: &str, fam: &Family, enc: Enc, ft: Ft, want: &Want) {
    let n = fam.cx.noperands();
    st.family(&format!(
        "{}/{}/{} ({} operands, {} ordered pairs)",
        fam.cx.name,
        enc.name(),
        ft.name(),
        n,
        n as u64 * n as u64
    ));
    (0..n).into_par_iter().for_each(|a| {
        let mut loc = Local::default();
        for b in 0..n {
            loc.states += 1;
            if fam.nontrivial(a, b) {
                loc.nontrivial += 1;
            }
            let cl = complex_pair(fam, enc, a, b, ft, want, &mut loc);
            for c in cl {
                loc.violation(
                    &c,
                    finding_key(
                        prop,
                        &format!("{}:{}:{}:{}:{}", fam.cx.name, enc.name(), a, b, ft.name()),
                        &c,
                    ),
                    complex_case_json(prop, &fam.cx.name, enc, a, b, ft),
                );
            }
        }
        st.merge(&loc);
    });
    let (a, b) = (n / 3 + 1, n - 2);
    st.sample(json!({"family": fam.cx.name, "enc": enc.name(), "a_mask": a, "b_mask": b,
        "A": hex(&fam.enc(enc)[a as usize]), "B": hex(&fam.enc(enc)[b as usize]), "ops": "all four", "ft": ft.name()}));
}

// ------------------------------------------------------------------------------------------------
// float tables and lattice-triangle families (generic witness oracle)
// ------------------------------------------------------------------------------------------------

pub struct TableSpec {
    pub name: String,
    pub kind: String, // "P" | "L2i" | "L2s" | "L2i21"
    pub seed: u64,
    pub n: usize,
    pub scale: f64,
    pub f32: bool,
}

impl TableSpec {
    pub fn json(&self) -> Value {
        json!({"name": self.name, "tkind": self.kind, "seed": self.seed, "n": self.n,
               "scale_bits": format!("{:016x}", self.scale.to_bits()), "f32": self.f32})
    }
    pub fn from_json(v: &Value) -> TableSpec {
        TableSpec {
            name: v["name"].as_str().unwrap().into(),
            kind: v["tkind"].as_str().unwrap().into(),
            seed: v["seed"].as_u64().unwrap(),
            n: v["n"].as_u64().unwrap() as usize,
            scale: f64::from_bits(
                u64::from_str_radix(v["scale_bits"].as_str().unwrap(), 16).unwrap(),
            ),
            f32: v["f32"].as_bool().unwrap(),
        }
    }
    pub fn build(&self) -> Table {
        match self.kind.as_str() {
            "P" => Table::new(&self.name, self.seed, self.n, self.scale, self.f32, 60),
            "PS" => Table::with_design(&self.name, self.seed, self.n, self.scale, self.f32, 60, Some(&SPIKE_DESIGN)),
            "L2i" => lattice_table(&self.name, false, false),
            "L2s" => lattice_table(&self.name, true, false),
            "L2i21" => lattice_table(&self.name, false, true),
            "L3i" => lattice_table_m(&self.name, false, false, 4),
            k => panic!("unknown table kind {k}"),
        }
    }
    pub fn tol(&self, ft: Ft) -> f64 {
        let mag = match self.kind.as_str() {
            "P" | "PS" => self.scale,
            "L2s" => 0.274,
            "L3i" => 3.0,
            _ => 2.0,
        };
        if ft == Ft::F32 || self.f32 {
            1e-4 * mag
        } else {
            1e-9 * mag
        }
    }
}

/// all 76 non-degenerate triangles over {0,1,2}^2 (optionally sheared), optionally two-part operands first
pub fn lattice_table(name: &str, shear: bool, twopart: bool) -> Table {
    lattice_table_m(name, shear, twopart, 3)
}

/// `m` lattice points per side
pub fn lattice_table_m(name: &str, shear: bool, twopart: bool, m: usize) -> Table {
    let mut pts: Vec<P> = vec![];
    for y in 0..m {
        for x in 0..m {
            let (x, y) = (x as f64, y as f64);
            pts.push(if shear {
                (0.1 * x + 0.037 * y, 0.1 * y)
            } else {
                (x, y)
            });
        }
    }
    let mut t = Table {
        name: name.into(),
        pts: pts.clone(),
        ops: vec![],
        n_tri: 0,
    };
    let mut tris = vec![];
    // orientation decided on the integer lattice (the shear preserves it)
    let ip = |i: usize| ((i % m) as f64, (i / m) as f64);
    for i in 0..m * m {
        for j in i + 1..m * m {
            for k in j + 1..m * m {
                let o = orient(ip(i), ip(j), ip(k));
                if o != 0.0 {
                    tris.push(if o > 0.0 {
                        vec![i, j, k]
                    } else {
                        vec![i, k, j]
                    });
                }
            }
        }
    }
    let ring = |idx: &Vec<usize>| -> Vec<P> { idx.iter().map(|&i| pts[i]).collect() };
    for tr in &tris {
        let mp = geo_types::MultiPolygon(vec![poly_from(&ring(tr), &[])]);
        let edges = mp_edges(&mp);
        t.ops.push(Operand {
            kind: Kind::Tri,
            idx: tr.clone(),
            mp,
            edges,
        });
    }
    t.n_tri = t.ops.len();
    if twopart {
        // valid two-part operands: interiors disjoint, boundaries meeting in at most finitely many points;
        // decided exactly on the integer lattice
        let iring = |idx: &Vec<usize>| -> Vec<P> { idx.iter().map(|&i| ip(i)).collect() };
        let mut two = vec![];
        for (x, a) in tris.iter().enumerate() {
            for b in tris.iter().skip(x + 1) {
                let (ra, rb) = (iring(a), iring(b));
                let ea: Vec<Seg> = (0..3).map(|i| (ra[i], ra[(i + 1) % 3])).collect();
                let eb: Vec<Seg> = (0..3).map(|i| (rb[i], rb[(i + 1) % 3])).collect();
                let mut bad = false;
                for &s in &ea {
                    for &u in &eb {
                        if proper_cross(s, u) || collinear_overlap(s, u) {
                            bad = true;
                        }
                    }
                }
                // a vertex of one strictly inside the other, or identical triangles
                let inside = |p: P, r: &Vec<P>| {
                    orient(r[0], r[1], p) > 0.0
                        && orient(r[1], r[2], p) > 0.0
                        && orient(r[2], r[0], p) > 0.0
                };
                if ra.iter().any(|&p| inside(p, &rb)) || rb.iter().any(|&p| inside(p, &ra)) {
                    bad = true;
                }
                // centroid-of-union checks for containment without interior vertices (e.g. same vertex set rotated)
                let ca = (
                    (ra[0].0 + ra[1].0 + ra[2].0) / 3.0,
                    (ra[0].1 + ra[1].1 + ra[2].1) / 3.0,
                );
                let cb = (
                    (rb[0].0 + rb[1].0 + rb[2].0) / 3.0,
                    (rb[0].1 + rb[1].1 + rb[2].1) / 3.0,
                );
                if inside(ca, &rb) || inside(cb, &ra) {
                    bad = true;
                }
                // an edge midpoint of one strictly inside the other (overlap with all vertices on boundaries)
                for r in [(&ea, &rb), (&eb, &ra)] {
                    for &(p, q) in r.0.iter() {
                        if inside(((p.0 + q.0) / 2.0, (p.1 + q.1) / 2.0), r.1) {
                            bad = true;
                        }
                    }
                }
                if !bad {
                    two.push((a.clone(), b.clone()));
                }
            }
        }
        let mut ops2 = vec![];
        for (a, b) in two {
            let mp =
                geo_types::MultiPolygon(vec![poly_from(&ring(&a), &[]), poly_from(&ring(&b), &[])]);
            let edges = mp_edges(&mp);
            let mut idx = a.clone();
            idx.extend(b.iter());
            ops2.push(Operand {
                kind: Kind::TwoPart,
                idx,
                mp,
                edges,
            });
        }
        t.ops.extend(ops2);
    }
    t
}

pub fn table_case_json(prop: &str, spec: &TableSpec, a: usize, b: usize, ft: Ft) -> Value {
    json!({"prop": prop, "kind": "table", "table": spec.json(), "a": a, "b": b, "ft": ft.name()})
}

pub struct TableOut {
    pub clauses: Vec<String>,
    pub sides: usize,
    pub skipped: usize,
}

/// All oracles wanted on one ordered pair of table operands.
pub fn table_pair(
    t: &Table,
    spec: &TableSpec,
    ia: usize,
    ib: usize,
    ft: Ft,
    want: &Want,
    loc: &mut Local,
) -> TableOut {
    let (a, b) = (&t.ops[ia], &t.ops[ib]);
    let tol = spec.tol(ft);
    let mut edges = a.edges.clone();
    edges.extend(b.edges.iter().cloned());
    let wit = witnesses(&edges, tol);
    let exact_family = spec.kind != "P" && spec.kind != "PS";
    // self-crossing operands are in the domain of the region clause of C01 only
    let valid = a.kind != Kind::Bowtie && b.kind != Kind::Bowtie;
    let want = &Want {
        c01: want.c01,
        c02: want.c02 && valid,
        c03: want.c03,
        c04: want.c04 && valid,
        c05: want.c05 && valid,
        pairings: want.pairings,
    };
    let mut cl: Vec<String> = vec![];
    let mut results: Vec<Option<MP>> = vec![];
    let n = edges.len() as u64;
    let truth: Vec<(bool, bool)> = wit
        .pts
        .iter()
        .map(|&w| (evenodd(&a.mp, w), evenodd(&b.mp, w)))
        .collect();
    for op in OPS {
        let o = call_full(&a.mp, &b.mp, op, ft, Pairing::MM);
        loc.transitions += 1;
        if o.early {
            loc.add("early_break_taken", 1);
        }
        if o.trivial {
            loc.add("bbox_shortcut_taken", 1);
        }
        o.count_paths(loc);
        let res = match o.res {
            Err(msg) => {
                loc.add("panics", 1);
                if want.c03 {
                    cl.push(format!("C03 panic {}: {}", op_name(op), short(&msg)));
                }
                results.push(None);
                continue;
            }
            Ok(r) => r,
        };
        if want.c03 {
            if o.events > event_bound(n) {
                cl.push(format!("C03 events-above-bound {}", op_name(op)));
            }
            loc.max(
                "max_events_over_2n2",
                o.events as f64 / (2.0 * (n * n) as f64),
            );
        }
        if want.c01 {
            let mut bad = false;
            for (k, &w) in wit.pts.iter().enumerate() {
                if (polywise(&res, w) >= 1) != model_bool(truth[k].0, truth[k].1, op) {
                    bad = true;
                }
            }
            if bad {
                cl.push(format!("C01 region-mismatch {}", op_name(op)));
            }
            for p in [Pairing::PM, Pairing::MP, Pairing::PP] {
                if want.pairings && pairing_applicable(&a.mp, &b.mp, p) {
                    let o2 = call_full(&a.mp, &b.mp, op, ft, p);
                    loc.transitions += 1;
                    loc.add("trait_pairing_calls", 1);
                    match o2.res {
                        Ok(r2) if mp_bits_eq(&r2, &res) => {}
                        _ => cl.push(format!("C01 trait-pairing-differs {:?} {}", p, op_name(op))),
                    }
                }
            }
        }
        if want.c02 {
            let mut v = vec![];
            float_structural(&res, &wit.pts, &mut v);
            v.sort();
            v.dedup();
            for s in v {
                cl.push(format!("{s} {}", op_name(op)));
            }
        }
        if want.c04 {
            let mut v = vec![];
            let shortcut = boxes_disjoint(&a.mp, &b.mp);
            if shortcut != o.trivial {
                v.push("C04 shortcut-predicate-disagrees");
            }
            ring_checks(&res, !shortcut, &mut v);
            // a bow-tie's own crossing point is a legitimate vertex: intersections of two edges of the
            // same operand are covered because `provenance` pairs all input edges
            provenance(&a.mp, &b.mp, &res, tol, &mut v);
            v.sort();
            v.dedup();
            for s in v {
                cl.push(format!("{s} {}", op_name(op)));
            }
        }
        results.push(Some(res));
    }
    if want.c05 {
        let o = call_full(&b.mp, &a.mp, Operation::Difference, ft, Pairing::MM);
        loc.transitions += 1;
        if let (Some(i), Some(u), Some(d), Some(x), Ok(e)) =
            (&results[0], &results[1], &results[2], &results[3], &o.res)
        {
            let (mut nd, mut nc, mut nx) = (false, false, false);
            for &w in &wit.pts {
                let inn = |m: &MP| polywise(m, w) >= 1;
                let (wi, wu, wd, wx, we) = (inn(i), inn(u), inn(d), inn(x), inn(e));
                if (wi as u8 + wd as u8 + we as u8) > 1 {
                    nd = true;
                }
                if (wi || wd || we) != wu {
                    nc = true;
                }
                if wx != (wd || we) {
                    nx = true;
                }
            }
            if nd {
                cl.push("C05 parts-not-disjoint".into());
            }
            if nc {
                cl.push("C05 parts-do-not-cover-union".into());
            }
            if nx {
                cl.push("C05 xor!=union-of-differences".into());
            }
            let (ai, au, ad, ax, ae) = (mp_area(i), mp_area(u), mp_area(d), mp_area(x), mp_area(e));
            let mag = max_abs_coord(&[&a.mp, &b.mp]);
            let atol = if exact_family && ft == Ft::F64 {
                1e-9 * mag * mag
            } else {
                (if ft == Ft::F32 || spec.f32 {
                    1e-4
                } else {
                    1e-9
                }) * mag
                    * mag
            };
            let close = |p: f64, q: f64| (p - q).abs() <= atol;
            if !close(ax, au - ai) {
                cl.push("C05 area(X)!=area(U)-area(I)".into());
            }
            if !close(ad + ae, ax) {
                cl.push("C05 area(A-B)+area(B-A)!=area(X)".into());
            }
            if a.kind != Kind::Bowtie && b.kind != Kind::Bowtie {
                let (aa, ab) = (mp_area(&a.mp), mp_area(&b.mp));
                if !close(ai + au, aa + ab) {
                    cl.push("C05 area(I)+area(U)!=area(A)+area(B)".into());
                }
                if !close(ad, aa - ai) {
                    cl.push("C05 area(A-B)!=area(A)-area(I)".into());
                }
            }
        } else {
            loc.add("c05_skipped_panicking_pairs", 1);
        }
    }
    TableOut {
        clauses: cl,
        sides: wit.sides,
        skipped: wit.skipped,
    }
}

/// which ordered pairs of a table are enumerated
#[derive(Clone, Copy, PartialEq)]
pub enum PairSet {
    /// every pair with at least one triangle (plus all triangle x triangle)
    WithTriangle,
    /// triangle x triangle only
    TrianglesOnly,
    /// the full cross product
    All,
}

pub fn sweep_table(st: &Stats, prop: &str, spec: &TableSpec, ft: Ft, want: &Want, pairs: PairSet) {
    let t = spec.build();
    let n = t.ops.len();
    let cnt = std::sync::atomic::AtomicU64::new(0);
    (0..n).into_par_iter().for_each(|ia| {
        let mut loc = Local::default();
        for ib in 0..n {
            let (a, b) = (&t.ops[ia], &t.ops[ib]);
            let ok = match pairs {
                PairSet::All => true,
                PairSet::TrianglesOnly => a.kind == Kind::Tri && b.kind == Kind::Tri,
                PairSet::WithTriangle => a.kind == Kind::Tri || b.kind == Kind::Tri,
            };
            if !ok || !t.pair_allowed(a, b) {
                continue;
            }
            // self-crossing operands are only in the domain of C01 (even-odd clause); every other
            // property quantifies over valid operands
            if !want.c01 && (a.kind == Kind::Bowtie || b.kind == Kind::Bowtie) {
                continue;
            }
            loc.states += 1;
            if edge_sets_interact(&a.edges, &b.edges) {
                loc.nontrivial += 1;
            }
            let out = table_pair(&t, spec, ia, ib, ft, want, &mut loc);
            loc.add("witness_sides", out.sides as u64);
            loc.add(
                if spec.kind == "P" || spec.kind == "PS" {
                    "faces_skipped_general_position_tables"
                } else {
                    "faces_skipped_lattice_triangles"
                },
                out.skipped as u64,
            );
            for c in out.clauses {
                let mut case = table_case_json(prop, spec, ia, ib, ft);
                case["A"] = hex(&a.mp);
                case["B"] = hex(&b.mp);
                loc.violation(
                    &c,
                    finding_key(
                        prop,
                        &format!("{}:{}:{}:{}", spec.name, ia, ib, ft.name()),
                        &c,
                    ),
                    case,
                );
            }
        }
        cnt.fetch_add(loc.states, std::sync::atomic::Ordering::Relaxed);
        st.merge(&loc);
    });
    let mut kinds = std::collections::BTreeMap::new();
    for o in &t.ops {
        *kinds.entry(o.kind.name()).or_insert(0u32) += 1;
    }
    st.family(&format!(
        "{}/{} ({} operands {:?}, {} ordered pairs)",
        spec.name,
        ft.name(),
        n,
        kinds,
        cnt.into_inner()
    ));
    if n > 3 {
        st.sample(json!({"table": spec.json(), "a": 1, "b": n - 2, "A": hex(&t.ops[1].mp), "B": hex(&t.ops[n - 2].mp), "ops": "all four", "ft": ft.name()}));
    }
}

// ------------------------------------------------------------------------------------------------
// replay
// ------------------------------------------------------------------------------------------------

thread_local! {
    static FAM_CACHE: std::cell::RefCell<std::collections::HashMap<String, std::rc::Rc<Family>>> = Default::default();
}

pub fn family_cached(name: &str) -> std::rc::Rc<Family> {
    FAM_CACHE.with(|c| {
        c.borrow_mut()
            .entry(name.into())
            .or_insert_with(|| std::rc::Rc::new(Family::new(name)))
            .clone()
    })
}

pub fn ft_from(s: &str) -> Ft {
    if s == "f32" {
        Ft::F32
    } else {
        Ft::F64
    }
}
pub fn enc_from(s: &str) -> Enc {
    if s == "U" {
        Enc::U
    } else {
        Enc::M
    }
}

pub fn replay(case: &Value, verbose: bool) -> Vec<String> {
    let prop = case["prop"].as_str().unwrap();
    let want = Want::for_prop(prop);
    let ft = ft_from(case["ft"].as_str().unwrap_or("f64"));
    let mut loc = Local::default();
    match case["kind"].as_str().unwrap() {
        "complex" => {
            let fam = family_cached(case["family"].as_str().unwrap());
            let enc = enc_from(case["enc"].as_str().unwrap());
            let (a, b) = (
                case["a"].as_u64().unwrap() as u32,
                case["b"].as_u64().unwrap() as u32,
            );
            if verbose {
                let (pa, pb) = (&fam.enc(enc)[a as usize], &fam.enc(enc)[b as usize]);
                println!("A = {}", hex(pa));
                println!("B = {}", hex(pb));
                for op in OPS {
                    match call_full(pa, pb, op, ft, Pairing::MM).res {
                        Ok(r) => println!(
                            "{} -> {}  (model mask {:#b}, read back {:#b})",
                            op_name(op),
                            hex(&r),
                            model(a, b, op),
                            fam.cx.mask_of(&r).0
                        ),
                        Err(e) => println!("{} -> PANIC {e}", op_name(op)),
                    }
                }
            }
            complex_pair(&fam, enc, a, b, ft, &want, &mut loc)
        }
        "table" => {
            let spec = TableSpec::from_json(&case["table"]);
            let t = spec.build();
            let (a, b) = (
                case["a"].as_u64().unwrap() as usize,
                case["b"].as_u64().unwrap() as usize,
            );
            if verbose {
                println!("A = {}", hex(&t.ops[a].mp));
                println!("B = {}", hex(&t.ops[b].mp));
                for op in OPS {
                    match call_full(&t.ops[a].mp, &t.ops[b].mp, op, ft, Pairing::MM).res {
                        Ok(r) => println!("{} -> {}", op_name(op), hex(&r)),
                        Err(e) => println!("{} -> PANIC {e}", op_name(op)),
                    }
                }
            }
            table_pair(&t, &spec, a, b, ft, &want, &mut loc).clauses
        }
        k => panic!("unknown case kind {k}"),
    }
}

// ------------------------------------------------------------------------------------------------
// the tiers
// ------------------------------------------------------------------------------------------------

pub const QUICK_COMPLEX: [&str; 7] = ["G22", "G32", "G23", "G33", "T22", "O21", "O12"];
pub const THOROUGH_COMPLEX: [&str; 6] = ["G43", "G34", "T32", "T23", "O31", "O13"];

/// Point table spec. Tables that are used in single precision have a FIXED seed: in f32 the
/// near-degeneracies behind finding N2 (one-ulp bump at a shared end point) are hit by roughly one
/// table in five, so the failing members are listed individually in known_findings.jsonl, which is only
/// possible for a table that does not change with VERIF_SEED. f64 tables follow VERIF_SEED.
pub const F32_TABLE_SEED: u64 = 1;
pub fn p_spec(n: usize, seed: u64, scale: f64, f32: bool) -> TableSpec {
    let seed = if f32 { F32_TABLE_SEED } else { seed };
    let sc = if scale == 1.0 {
        "".to_string()
    } else {
        format!("x{:.4e}", scale)
    };
    TableSpec {
        name: format!("P{n}s{seed}{sc}{}", if f32 { "r32" } else { "" }),
        kind: "P".into(),
        seed,
        n,
        scale,
        f32,
    }
}
/// The spike table: subject pentagon (0.1,-0.1),(0.6,0.4),(0.2,0.6),(0.45,0.7),(0.9,0.2) whose reflex spike at
/// (0.6,0.4) separates its edge towards (0.9,0.2) from the long edge (0,0)-(1,0.5) of a clipping triangle that
/// was already split further left: the crossing is only found when the spike's edges leave the sweep line
/// (the post-removal neighbour check of `subdivide`). All operands over these 9 points are enumerated.
pub const SPIKE_DESIGN: [P; 9] = [(0.1, -0.1), (0.6, 0.4), (0.2, 0.6), (0.45, 0.7), (0.9, 0.2), (0.0, 0.0), (1.0, 0.5), (0.0, 1.0), (0.75, 0.85)];
pub fn spike_spec(seed: u64) -> TableSpec {
    TableSpec { name: format!("PS9s{seed}"), kind: "PS".into(), seed, n: 9, scale: 1.0, f32: false }
}
/// Integer table for single precision: 9 hashed integer points in [-2^24, 2^24]^2 — every coordinate is exactly
/// representable in f32, but coordinate differences (up to 2^25) are not, so the f32 instantiation has to be
/// correct with inexact differences while the f64 instantiation computes the same differences exactly.
/// Fixed seed (see F32_TABLE_SEED).
pub fn pi_spec() -> TableSpec {
    TableSpec { name: "PI9s1".into(), kind: "P".into(), seed: F32_TABLE_SEED, n: 9, scale: 33554432.0, f32: true }
}
pub fn l_spec(kind: &str) -> TableSpec {
    TableSpec {
        name: kind.into(),
        kind: kind.into(),
        seed: 0,
        n: 9,
        scale: 1.0,
        f32: false,
    }
}

pub const RULE: &str = "state = ordered operand pair of a finite family (every union of faces of a cell complex in two encodings; every triangle/quadrilateral/bow-tie/holed/two-part operand over a hashed point table; every lattice triangle over {0,1,2}^2), transition = one call of the real implementation compared with the reference model (bitmask algebra / exact even-odd membership at one witness per arrangement face); non-trivial = both operands non-empty and their boundaries share at least one point";

pub fn run(prop: &str, tier: &str) -> i32 {
    let st = Stats::new(prop, tier);
    let want = Want::for_prop(prop);
    silence_panics();
    let thorough = tier == "thorough";
    let seed = st.seed;
    for name in QUICK_COMPLEX {
        let fam = Family::new(name);
        for enc in [Enc::M, Enc::U] {
            sweep_complex(&st, prop, &fam, enc, Ft::F64, &want);
        }
    }
    if thorough {
        for name in THOROUGH_COMPLEX {
            let fam = Family::new(name);
            sweep_complex(&st, prop, &fam, Enc::M, Ft::F64, &want);
        }
    }
    if !thorough {
        // all ordered pairs (seed S55 needs two non-convex operands in general position)
        sweep_table(
            &st,
            prop,
            &p_spec(9, seed, 1.0, false),
            Ft::F64,
            &want,
            PairSet::All,
        );
    }
    sweep_table(
        &st,
        prop,
        &p_spec(9, seed, 1.1 * 1048576.0, false),
        Ft::F64,
        &want,
        PairSet::TrianglesOnly,
    );
    sweep_table(
        &st,
        prop,
        &p_spec(9, seed, 1e-3, false),
        Ft::F64,
        &want,
        PairSet::TrianglesOnly,
    );
    if thorough {
        sweep_table(
            &st,
            prop,
            &p_spec(9, seed, 1.0, false),
            Ft::F64,
            &want,
            PairSet::All,
        );
        sweep_table(
            &st,
            prop,
            &p_spec(16, seed, 1.0, false),
            Ft::F64,
            &want,
            PairSet::TrianglesOnly,
        );
        sweep_table(
            &st,
            prop,
            &p_spec(9, seed + 1, 1.0, false),
            Ft::F64,
            &want,
            PairSet::WithTriangle,
        );
    }
    sweep_table(&st, prop, &spike_spec(seed), Ft::F64, &want, PairSet::WithTriangle);
    // a second table in general position with different shapes (integer coordinates up to 2^24; seed S55)
    sweep_table(&st, prop, &pi_spec(), Ft::F64, &want, PairSet::WithTriangle);
    sweep_table(&st, prop, &l_spec("L2i"), Ft::F64, &want, PairSet::All);
    sweep_table(&st, prop, &l_spec("L2s"), Ft::F64, &want, PairSet::All);
    // all 516 lattice triangles over {0..3}^2: 266 256 ordered pairs; about 0.04 % of the calls fail on the
    // unchanged tree (N1), listed individually — the family is kept because it is the only one in which a
    // vertex lies exactly on an edge that was split earlier in a non-representable point (seed S36)
    sweep_table(&st, prop, &l_spec("L3i"), Ft::F64, &want, PairSet::All);
    if thorough {
        sweep_table(
            &st,
            prop,
            &l_spec("L2i21"),
            Ft::F64,
            &want,
            PairSet::WithTriangle,
        );
    }
    finish(
        &st,
        RULE,
        &[
            "robust::orient2d is exact (crossing-number parity and on-segment tests are decided with it)",
            "witness points of complexes are >= 0.15 away from every edge; on float tables faces thinner than the tolerance are skipped and counted (faces_skipped)",
            "nothing is claimed outside the enumerated families",
        ],
        true,
        Some(&|c| replay(c, false)),
    )
}
