//! Finite cell complexes with small integer vertices; an operand is a union of faces (a bitmask),
//! the reference model of the four operations is `& | &! ^` on the masks.
use crate::geom::*;
use geo_booleanop::boolean::Operation;
use geo_types::{MultiPolygon, Polygon};
use std::collections::{HashMap, HashSet};

pub type V = (i32, i32);

pub fn model(a: u32, b: u32, op: Operation) -> u32 {
    match op {
        Operation::Intersection => a & b,
        Operation::Union => a | b,
        Operation::Difference => a & !b,
        Operation::Xor => a ^ b,
    }
}

pub fn model_bool(a: bool, b: bool, op: Operation) -> bool {
    match op {
        Operation::Intersection => a && b,
        Operation::Union => a || b,
        Operation::Difference => a && !b,
        Operation::Xor => a ^ b,
    }
}

#[derive(Clone)]
pub struct Complex {
    pub name: String,
    pub faces: Vec<Vec<V>>, // ccw
    pub wit: Vec<P>,
    pub verts: HashSet<V>,
    pub cells1: HashSet<(V, V)>, // undirected, smaller end first
    pub face_edges: Vec<Vec<Seg>>,
    edge_face: HashMap<(V, V), usize>,
    decomp: HashMap<(V, V), Vec<(V, V)>>,
}

fn cross(o: V, a: V, b: V) -> i64 {
    (a.0 - o.0) as i64 * (b.1 - o.1) as i64 - (a.1 - o.1) as i64 * (b.0 - o.0) as i64
}

pub fn area2(r: &[V]) -> i64 {
    let mut s = 0i64;
    for i in 0..r.len() {
        let (a, b) = (r[i], r[(i + 1) % r.len()]);
        s += a.0 as i64 * b.1 as i64 - b.0 as i64 * a.1 as i64;
    }
    s
}

/// true if the ccw rotation from `from` to `a` (in (0, 2pi]) is smaller than the one to `b`
fn ccw_closer(from: V, a: V, b: V) -> bool {
    let cls = |d: V| -> i32 {
        let c = from.0 as i64 * d.1 as i64 - from.1 as i64 * d.0 as i64;
        let dot = from.0 as i64 * d.0 as i64 + from.1 as i64 * d.1 as i64;
        if c > 0 {
            0
        } else if c == 0 && dot < 0 {
            1
        } else if c < 0 {
            2
        } else {
            3
        }
    };
    let (ka, kb) = (cls(a), cls(b));
    if ka != kb {
        return ka < kb;
    }
    (a.0 as i64 * b.1 as i64 - a.1 as i64 * b.0 as i64) > 0
}

fn norm_cell(u: V, v: V) -> (V, V) {
    if u < v {
        (u, v)
    } else {
        (v, u)
    }
}

impl Complex {
    fn build(name: &str, faces: Vec<Vec<V>>) -> Complex {
        let mut verts = HashSet::new();
        let mut cells1 = HashSet::new();
        let mut edge_face = HashMap::new();
        let mut wit = vec![];
        let mut face_edges = vec![];
        for (f, r) in faces.iter().enumerate() {
            assert!(area2(r) > 0, "face not ccw");
            let n = r.len() as f64;
            wit.push((
                r.iter().map(|p| p.0 as f64).sum::<f64>() / n,
                r.iter().map(|p| p.1 as f64).sum::<f64>() / n,
            ));
            let mut fe = vec![];
            for i in 0..r.len() {
                let (u, v) = (r[i], r[(i + 1) % r.len()]);
                verts.insert(u);
                cells1.insert(norm_cell(u, v));
                assert!(
                    edge_face.insert((u, v), f).is_none(),
                    "directed edge used twice"
                );
                fe.push(((u.0 as f64, u.1 as f64), (v.0 as f64, v.1 as f64)));
            }
            face_edges.push(fe);
        }
        let mut cx = Complex {
            name: name.into(),
            faces,
            wit,
            verts,
            cells1,
            face_edges,
            edge_face,
            decomp: HashMap::new(),
        };
        let vs: Vec<V> = cx.verts.iter().cloned().collect();
        let mut decomp = HashMap::new();
        for &u in &vs {
            for &v in &vs {
                if u != v {
                    if let Some(c) = cx.decompose_slow((u.0 as f64, u.1 as f64), (v.0 as f64, v.1 as f64)) {
                        decomp.insert((u, v), c);
                    }
                }
            }
        }
        cx.decomp = decomp;
        // self check: every witness lies in its own face only and is clear of all 1-cells
        for f in 0..cx.faces.len() {
            for g in 0..cx.faces.len() {
                assert_eq!(
                    parity(&cx.face_edges[g], cx.wit[f]),
                    f == g,
                    "witness/face mismatch"
                );
            }
            for fe in &cx.face_edges {
                for &e in fe {
                    assert!(
                        dist_pt_seg(cx.wit[f], e) >= 0.15,
                        "witness too close to an edge"
                    );
                }
            }
        }
        cx
    }

    pub fn grid(name: &str, w: i32, h: i32) -> Complex {
        let mut faces = vec![];
        for y in 0..h {
            for x in 0..w {
                faces.push(vec![(x, y), (x + 1, y), (x + 1, y + 1), (x, y + 1)]);
            }
        }
        Complex::build(name, faces)
    }
    /// squares of side 2 split in 4 triangles by both diagonals
    pub fn octa(name: &str, w: i32, h: i32) -> Complex {
        let mut faces = vec![];
        for y in 0..h {
            for x in 0..w {
                let (x0, y0, x1, y1, cx, cy) =
                    (2 * x, 2 * y, 2 * x + 2, 2 * y + 2, 2 * x + 1, 2 * y + 1);
                faces.push(vec![(x0, y0), (x1, y0), (cx, cy)]);
                faces.push(vec![(x1, y0), (x1, y1), (cx, cy)]);
                faces.push(vec![(x1, y1), (x0, y1), (cx, cy)]);
                faces.push(vec![(x0, y1), (x0, y0), (cx, cy)]);
            }
        }
        Complex::build(name, faces)
    }
    /// unit squares split in 2 triangles by alternating diagonals
    pub fn diag(name: &str, w: i32, h: i32) -> Complex {
        let mut faces = vec![];
        for y in 0..h {
            for x in 0..w {
                let (a, b, c, d) = ((x, y), (x + 1, y), (x + 1, y + 1), (x, y + 1));
                if (x + y) % 2 == 0 {
                    faces.push(vec![a, b, c]);
                    faces.push(vec![a, c, d]);
                } else {
                    faces.push(vec![a, b, d]);
                    faces.push(vec![b, c, d]);
                }
            }
        }
        Complex::build(name, faces)
    }
    /// 2x2 grid plus four far satellites (left, right, below, above)
    pub fn sat(name: &str) -> Complex {
        let mut faces = Complex::grid("tmp", 2, 2).faces;
        for (x, y) in [(-10, 0), (10, 1), (0, -10), (1, 10)] {
            faces.push(vec![(x, y), (x + 1, y), (x + 1, y + 1), (x, y + 1)]);
        }
        Complex::build(name, faces)
    }

    pub fn by_name(name: &str) -> Complex {
        let b = name.as_bytes();
        let d = |i: usize| (b[i] - b'0') as i32;
        match b[0] {
            b'G' => Complex::grid(name, d(1), d(2)),
            b'T' => Complex::diag(name, d(1), d(2)),
            b'O' => Complex::octa(name, d(1), d(2)),
            b'S' => Complex::sat(name),
            _ => panic!("unknown complex {name}"),
        }
    }

    pub fn nfaces(&self) -> usize {
        self.faces.len()
    }
    pub fn noperands(&self) -> u32 {
        1u32 << self.faces.len()
    }

    pub fn face_of(&self, w: P) -> Option<usize> {
        (0..self.faces.len()).find(|&f| parity(&self.face_edges[f], w))
    }

    pub fn in_mask(&self, m: u32, w: P) -> bool {
        self.face_of(w).map(|f| (m >> f) & 1 == 1).unwrap_or(false)
    }

    /// canonical valid representation: Vec<(exterior, holes)>; `merge` removes collinear vertices
    pub fn rings(&self, mask: u32, merge: bool) -> Vec<(Vec<V>, Vec<Vec<V>>)> {
        let nf = self.faces.len();
        let inset = |f: usize| (mask >> f) & 1 == 1;
        let edge_face = &self.edge_face;
        let mut uf: Vec<usize> = (0..nf).collect();
        fn find(uf: &mut [usize], x: usize) -> usize {
            let mut x = x;
            while uf[x] != x {
                uf[x] = uf[uf[x]];
                x = uf[x];
            }
            x
        }
        for (&(u, v), &f) in edge_face {
            if !inset(f) {
                continue;
            }
            if let Some(&g) = edge_face.get(&(v, u)) {
                if inset(g) {
                    let (a, b) = (find(&mut uf, f), find(&mut uf, g));
                    uf[a] = b;
                }
            }
        }
        let mut out: HashMap<usize, HashMap<V, Vec<V>>> = HashMap::new();
        for (&(u, v), &f) in edge_face {
            if !inset(f) {
                continue;
            }
            let twin_in = edge_face.get(&(v, u)).map(|&g| inset(g)).unwrap_or(false);
            if !twin_in {
                let c = find(&mut uf, f);
                out.entry(c).or_default().entry(u).or_default().push(v);
            }
        }
        // deterministic component order: by smallest face index of the component
        let mut comp_min: HashMap<usize, usize> = HashMap::new();
        for f in 0..nf {
            if inset(f) {
                let c = find(&mut uf, f);
                let e = comp_min.entry(c).or_insert(f);
                *e = (*e).min(f);
            }
        }
        let mut comps: Vec<usize> = out.keys().cloned().collect();
        comps.sort_by_key(|c| comp_min[c]);
        let mut res = vec![];
        for c in comps {
            let g = &out[&c];
            let mut edges: Vec<(V, V)> = vec![];
            for (u, vs) in g {
                for v in vs {
                    edges.push((*u, *v));
                }
            }
            edges.sort();
            let succ = |e: (V, V)| -> (V, V) {
                let (u, v) = e;
                let outs = &g[&v];
                let back = (u.0 - v.0, u.1 - v.1);
                let mut best = outs[0];
                for &o in &outs[1..] {
                    let d_o = (o.0 - v.0, o.1 - v.1);
                    let d_b = (best.0 - v.0, best.1 - v.1);
                    if ccw_closer(back, d_o, d_b) {
                        best = o;
                    }
                }
                (v, best)
            };
            let mut used: HashSet<(V, V)> = Default::default();
            let mut ext: Option<Vec<V>> = None;
            let mut holes = vec![];
            for &e0 in &edges {
                if used.contains(&e0) {
                    continue;
                }
                let mut ring = vec![];
                let mut e = e0;
                loop {
                    assert!(used.insert(e), "generator: successor not a bijection");
                    ring.push(e.0);
                    e = succ(e);
                    if e == e0 {
                        break;
                    }
                }
                // rotate to the smallest vertex so that the canonical start does not depend on hash order
                let k = (0..ring.len()).min_by_key(|&i| ring[i]).unwrap();
                ring.rotate_left(k);
                let ring = if merge { merge_collinear(&ring) } else { ring };
                {
                    let mut s = ring.clone();
                    s.sort();
                    s.dedup();
                    assert!(
                        s.len() == ring.len(),
                        "generator: ring not simple: {:?}",
                        ring
                    );
                }
                if area2(&ring) > 0 {
                    assert!(ext.is_none(), "generator: two exteriors");
                    ext = Some(ring);
                } else {
                    holes.push(ring);
                }
            }
            holes.sort();
            res.push((ext.expect("generator: no exterior"), holes));
        }
        res
    }

    pub fn to_mp(&self, mask: u32, merge: bool) -> MP {
        MultiPolygon(
            self.rings(mask, merge)
                .into_iter()
                .map(|(e, hs)| Polygon::new(ls(&e), hs.iter().map(|h| ls(h)).collect()))
                .collect(),
        )
    }

    /// region of a multipolygon read polygon-wise at the face witnesses:
    /// (mask, some face covered by two polygons, polygon-wise differs from even-odd somewhere)
    pub fn mask_of(&self, mp: &MP) -> (u32, bool, bool) {
        let mut m = 0u32;
        let (mut overlap, mut eo) = (false, false);
        for (f, &w) in self.wit.iter().enumerate() {
            let c = polywise(mp, w);
            if c >= 1 {
                m |= 1 << f;
            }
            if c > 1 {
                overlap = true;
            }
            if (c >= 1) != evenodd(mp, w) {
                eo = true;
            }
        }
        (m, overlap, eo)
    }

    pub fn ring_mask(&self, r: &geo_types::LineString<f64>) -> u32 {
        let mut m = 0u32;
        for (f, &w) in self.wit.iter().enumerate() {
            if ring_parity(r, w) {
                m |= 1 << f;
            }
        }
        m
    }

    pub fn area_of_mask(&self, m: u32) -> f64 {
        let mut s = 0i64;
        for f in 0..self.faces.len() {
            if (m >> f) & 1 == 1 {
                s += area2(&self.faces[f]);
            }
        }
        s as f64 * 0.5
    }

    /// decompose the segment a-b into 1-cells of the complex; None if it is not a chain of 1-cells
    /// (table lookup: all vertex pairs are precomputed when the complex is built)
    pub fn decompose(&self, a: P, b: P) -> Option<Vec<(V, V)>> {
        if !(a.0.fract() == 0.0 && a.1.fract() == 0.0 && b.0.fract() == 0.0 && b.1.fract() == 0.0 && a.0.abs() < 1e6 && a.1.abs() < 1e6 && b.0.abs() < 1e6 && b.1.abs() < 1e6) {
            return None;
        }
        self.decomp.get(&((a.0 as i32, a.1 as i32), (b.0 as i32, b.1 as i32))).cloned()
    }

    fn decompose_slow(&self, a: P, b: P) -> Option<Vec<(V, V)>> {
        let iv = |p: P| -> Option<V> {
            if p.0.fract() == 0.0 && p.1.fract() == 0.0 && p.0.abs() < 1e6 && p.1.abs() < 1e6 {
                let v = (p.0 as i32, p.1 as i32);
                if self.verts.contains(&v) {
                    return Some(v);
                }
            }
            None
        };
        let (va, vb) = (iv(a)?, iv(b)?);
        if va == vb {
            return None;
        }
        let mut on: Vec<V> = self
            .verts
            .iter()
            .cloned()
            .filter(|&v| {
                cross(va, vb, v) == 0
                    && v.0 >= va.0.min(vb.0)
                    && v.0 <= va.0.max(vb.0)
                    && v.1 >= va.1.min(vb.1)
                    && v.1 <= va.1.max(vb.1)
            })
            .collect();
        let key = |v: &V| ((v.0 - va.0) as i64).pow(2) + ((v.1 - va.1) as i64).pow(2);
        on.sort_by_key(key);
        let mut cells = vec![];
        for k in 0..on.len() - 1 {
            let c = norm_cell(on[k], on[k + 1]);
            if !self.cells1.contains(&c) {
                return None;
            }
            cells.push(c);
        }
        Some(cells)
    }
}

pub fn merge_collinear(r: &[V]) -> Vec<V> {
    let n = r.len();
    let mut out = vec![];
    for i in 0..n {
        if cross(r[(i + n - 1) % n], r[i], r[(i + 1) % n]) != 0 {
            out.push(r[i]);
        }
    }
    out
}

pub fn ls(r: &[V]) -> geo_types::LineString<f64> {
    let v: Vec<P> = r.iter().map(|&(x, y)| (x as f64, y as f64)).collect();
    ls_from(&v)
}

/// A complex together with its precomputed operand tables in both encodings.
pub struct Family {
    pub cx: Complex,
    pub m: Vec<MP>, // collinear vertices merged
    pub u: Vec<MP>, // every 1-cell kept
    /// per operand: bitmask of the complex vertices lying on its boundary (for the non-triviality rule)
    pub bverts: Vec<u64>,
}

impl Family {
    pub fn new(name: &str) -> Family {
        let cx = Complex::by_name(name);
        let n = cx.noperands();
        let m: Vec<MP> = (0..n).map(|k| cx.to_mp(k, true)).collect();
        let u: Vec<MP> = (0..n).map(|k| cx.to_mp(k, false)).collect();
        let mut vs: Vec<V> = cx.verts.iter().cloned().collect();
        vs.sort();
        assert!(vs.len() <= 64);
        let bverts: Vec<u64> = u
            .iter()
            .map(|mp| {
                let mut m = 0u64;
                for (a, _) in mp_edges(mp) {
                    let v = (a.0 as i32, a.1 as i32);
                    m |= 1u64 << vs.binary_search(&v).expect("vertex");
                }
                m
            })
            .collect();
        let fam = Family { cx, m, u, bverts };
        fam.self_check();
        fam
    }

    /// both operands non-empty and their boundaries share a point (all meetings are complex vertices)
    pub fn nontrivial(&self, a: u32, b: u32) -> bool {
        self.bverts[a as usize] & self.bverts[b as usize] != 0
    }

    pub fn enc(&self, e: Enc) -> &Vec<MP> {
        match e {
            Enc::M => &self.m,
            Enc::U => &self.u,
        }
    }

    /// generator self-check: a generator bug is a machinery failure (panic -> exit 2), never a verdict
    fn self_check(&self) {
        for k in 0..self.cx.noperands() {
            for mp in [&self.m[k as usize], &self.u[k as usize]] {
                let (mm, ov, eo) = self.cx.mask_of(mp);
                assert!(
                    mm == k && !ov && !eo,
                    "generator: operand {k} of {} reads back wrong",
                    self.cx.name
                );
                for p in &mp.0 {
                    assert!(
                        ring_area2(p.exterior()) > 0.0,
                        "generator: exterior not ccw"
                    );
                    let em = self.cx.ring_mask(p.exterior());
                    let mut seen = 0u32;
                    for h in p.interiors() {
                        assert!(ring_area2(h) < 0.0, "generator: hole not cw");
                        let hm = self.cx.ring_mask(h);
                        assert!(
                            hm != 0 && hm & !em == 0 && hm & seen == 0,
                            "generator: bad hole"
                        );
                        seen |= hm;
                    }
                }
                // every 1-cell at most once over all rings
                let mut cnt: HashMap<(V, V), u32> = HashMap::new();
                for (a, b) in mp_edges(mp) {
                    for c in self
                        .cx
                        .decompose(a, b)
                        .expect("generator: edge off complex")
                    {
                        *cnt.entry(c).or_default() += 1;
                    }
                }
                assert!(
                    cnt.values().all(|&c| c == 1),
                    "generator: repeated boundary cell"
                );
            }
        }
    }
}

#[derive(Clone, Copy, PartialEq, Eq, Debug)]
pub enum Enc {
    M,
    U,
}
impl Enc {
    pub fn name(self) -> &'static str {
        match self {
            Enc::M => "M",
            Enc::U => "U",
        }
    }
}
