#!/usr/bin/env python3
"""Prints a markdown table of the evidence files in a directory (default /verif/evidence)."""
import json, glob, sys, os
d = sys.argv[1] if len(sys.argv) > 1 else "/verif/evidence"
print("| property | tier | states | transitions | non-trivial | known findings hit | wall s |")
print("|---|---|---:|---:|---:|---:|---:|")
for f in sorted(glob.glob(os.path.join(d, "C*.json"))):
    e = json.load(open(f)); c = e["coverage"]
    kf = c.get("known_findings_hit")
    if kf is None and "per_flavour" in c:
        kf = sum(len(p.get("known_findings_hit") or []) for p in c["per_flavour"])
    else:
        kf = len(kf or [])
    if "per_flavour" in c:
        kf = sum(len(p.get("known_findings_hit") or []) for p in c["per_flavour"])
    print(f"| {e['property_id']} | {e['tier']} | {c['states']:,} | {c['transitions']:,} | {c['distinct_nontrivial']:,} | {kf} | {e['wall_s']:.0f} |")
