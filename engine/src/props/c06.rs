//! C06: set-algebra laws — commutativity, self-operations, empty operands, disjoint / touching boxes.
use super::base::*;
use crate::complex::*;
use crate::geom::*;
use crate::nf::*;
use crate::oracle::*;
use crate::run::*;
use crate::stats::*;
use geo_booleanop::boolean::Operation;
use geo_types::{LineString, MultiPolygon, Polygon};
use rayon::prelude::*;
use serde_json::{json, Value};

fn res_of(a: &MP, b: &MP, op: Operation, loc: &mut Local) -> Option<MP> {
    loc.transitions += 1;
    match call(a, b, op).res {
        Ok(r) => Some(r),
        Err(_) => {
            loc.add("panics", 1);
            None
        }
    }
}

/// commutativity on one ordered pair with a < b (both directions are the same statement)
pub fn swap_case(fam: &Family, enc: Enc, a: u32, b: u32, loc: &mut Local) -> Vec<String> {
    let (pa, pb) = (&fam.enc(enc)[a as usize], &fam.enc(enc)[b as usize]);
    let mut cl = vec![];
    for op in [Operation::Intersection, Operation::Union, Operation::Xor] {
        match (res_of(pa, pb, op, loc), res_of(pb, pa, op, loc)) {
            (Some(x), Some(y)) => {
                if ring_set(&x, Nf::D) != ring_set(&y, Nf::D) {
                    cl.push(format!("C06 swap-changes-ring-set {}", op_name(op)));
                }
            }
            _ => cl.push(format!("C06 panic {}", op_name(op))),
        }
    }
    cl
}

pub fn self_case(fam: &Family, enc: Enc, a: u32, loc: &mut Local) -> Vec<String> {
    let pa = &fam.enc(enc)[a as usize];
    let mut cl = vec![];
    for op in OPS {
        let r = match res_of(pa, pa, op, loc) {
            Some(r) => r,
            None => {
                cl.push(format!("C06 panic {}", op_name(op)));
                continue;
            }
        };
        match op {
            Operation::Intersection | Operation::Union => {
                if fam.cx.mask_of(&r).0 != a {
                    cl.push(format!("C06 self-op-region!=A {}", op_name(op)));
                }
                let mut v = vec![];
                complex_structural(&fam.cx, &r, &mut v);
                if !v.is_empty() {
                    cl.push(format!("C06 self-op-result-invalid {}", op_name(op)));
                }
                // "yields A" at boundary level, insensitive to how rings are cut at pinch vertices (the
                // implementation may return a hole that touches the exterior as an inlet of one ring):
                // the 1-cells covered by the result's rings are exactly the boundary 1-cells of A, once each
                let cells = |mp: &MP| {
                    let mut v: Vec<(V, V)> = vec![];
                    for (p, q) in mp_edges(mp) {
                        match fam.cx.decompose(p, q) {
                            Some(c) => v.extend(c),
                            None => v.push(((i32::MIN, 0), (0, 0))),
                        }
                    }
                    v.sort();
                    v
                };
                if cells(&r) != cells(&fam.m[a as usize]) {
                    cl.push(format!(
                        "C06 self-op-boundary!=boundary-of-A {}",
                        op_name(op)
                    ));
                }
            }
            _ => {
                if !r.0.is_empty() {
                    cl.push(format!("C06 self-op-not-empty {}", op_name(op)));
                }
            }
        }
    }
    cl
}

pub const EMPTIES: [&str; 3] = [
    "no-polygons",
    "one-polygon-without-vertices",
    "two-polygons-without-vertices",
];
pub fn empty_operand(kind: &str) -> MP {
    let e = || Polygon::new(LineString::<f64>(vec![]), vec![]);
    match kind {
        "no-polygons" => MultiPolygon(vec![]),
        "one-polygon-without-vertices" => MultiPolygon(vec![e()]),
        _ => MultiPolygon(vec![e(), e()]),
    }
}

pub fn empty_case(fam: &Family, enc: Enc, a: u32, kind: &str, loc: &mut Local) -> Vec<String> {
    let pa = &fam.enc(enc)[a as usize];
    let e = empty_operand(kind);
    let want = ring_set(pa, Nf::D);
    let mut cl = vec![];
    for op in OPS {
        for empty_first in [false, true] {
            let r = if empty_first {
                res_of(&e, pa, op, loc)
            } else {
                res_of(pa, &e, op, loc)
            };
            let r = match r {
                Some(r) => r,
                None => {
                    cl.push(format!("C06 panic {}", op_name(op)));
                    continue;
                }
            };
            let expect_a = match op {
                Operation::Union | Operation::Xor => true,
                Operation::Difference => !empty_first,
                Operation::Intersection => false,
            };
            let got = ring_set(&r, Nf::D);
            if expect_a && got != want {
                cl.push(format!(
                    "C06 empty-operand-result!=A{} {}",
                    if empty_first { " (empty first)" } else { "" },
                    op_name(op)
                ));
            }
            if !expect_a && !got.is_empty() {
                cl.push(format!(
                    "C06 empty-operand-result-not-empty{} {}",
                    if empty_first { " (empty first)" } else { "" },
                    op_name(op)
                ));
            }
        }
    }
    cl
}

/// extent of a complex in coordinate units
fn extent(cx: &Complex) -> (f64, f64) {
    let mx = cx.verts.iter().map(|v| v.0).max().unwrap() as f64;
    let my = cx.verts.iter().map(|v| v.1).max().unwrap() as f64;
    (mx, my)
}

/// B is translated so that the bounding boxes of the two complexes touch (gap 0) or are separated (gap 1)
pub fn translate_case(
    fam: &Family,
    a: u32,
    b: u32,
    axis: u8,
    gap: u8,
    loc: &mut Local,
) -> Vec<String> {
    let cx = &fam.cx;
    let (w, h) = extent(cx);
    let (dx, dy) = if axis == 0 {
        (w + gap as f64, 0.0)
    } else {
        (0.0, h + gap as f64)
    };
    let pa = &fam.m[a as usize];
    let pb = map_mp(&fam.m[b as usize], &|p| (p.0 + dx, p.1 + dy));
    let mut cl = vec![];
    for op in OPS {
        let o = call(pa, &pb, op);
        loc.transitions += 1;
        let r = match o.res {
            Ok(r) => r,
            Err(_) => {
                cl.push(format!("C06 panic {}", op_name(op)));
                continue;
            }
        };
        if o.trivial {
            loc.add("bbox_shortcut_taken", 1);
        }
        // region on both halves
        let mut left = 0u32;
        let mut right = 0u32;
        let mut bad_struct = false;
        for (f, &wp) in cx.wit.iter().enumerate() {
            for (half, w2) in [(0, wp), (1, (wp.0 + dx, wp.1 + dy))] {
                let c = polywise(&r, w2);
                if c > 1 || (c >= 1) != evenodd(&r, w2) {
                    bad_struct = true;
                }
                if c >= 1 {
                    if half == 0 {
                        left |= 1 << f;
                    } else {
                        right |= 1 << f;
                    }
                }
            }
        }
        let (el, er) = match op {
            Operation::Intersection => (0, 0),
            Operation::Union | Operation::Xor => (a, b),
            Operation::Difference => (a, 0),
        };
        if (left, right) != (el, er) {
            cl.push(format!(
                "C06 disjoint-or-touching-boxes-wrong-region {}",
                op_name(op)
            ));
        }
        if bad_struct {
            cl.push(format!(
                "C06 disjoint-or-touching-boxes-invalid-result {}",
                op_name(op)
            ));
        }
        if op == Operation::Intersection && !r.0.is_empty() {
            cl.push(format!(
                "C06 disjoint-or-touching-boxes-intersection-not-empty {}",
                op_name(op)
            ));
        }
        if gap > 0 && a != 0 && b != 0 {
            // boxes are disjoint: the inputs are handed back as given
            let got = ring_set(&r, Nf::D);
            let mut want = match op {
                Operation::Intersection => vec![],
                Operation::Difference => ring_set(pa, Nf::D),
                _ => {
                    let mut v = ring_set(pa, Nf::D);
                    v.extend(ring_set(&pb, Nf::D));
                    v
                }
            };
            want.sort();
            if got != want {
                cl.push(format!(
                    "C06 disjoint-boxes-rings-not-the-obvious-combination {}",
                    op_name(op)
                ));
            }
        }
    }
    cl
}

/// Two axis-parallel rectangles with decimal (non-dyadic) coordinates whose bounding boxes touch exactly along
/// a vertical (axis 0) or horizontal (axis 1) line: A = [t0,t1] x [0,1], B = [t1,t2] x [lo,hi] (transposed for
/// axis 1). The obvious combinations: intersection empty, difference = A, union and xor = one merged polygon
/// (no boundary segment shared by two rings), area(A)+area(B).
pub fn decimal_touch_case(i0: usize, i1: usize, i2: usize, yk: usize, axis: u8, loc: &mut Local) -> Vec<String> {
    let t = |i: usize| i as f64 / 10.0;
    let (lo, hi) = [(0.0, 1.0), (0.3, 0.7), (-0.4, 0.6), (0.5, 1.7)][yk];
    let tr = |p: P| if axis == 0 { p } else { (p.1, p.0) };
    let rect = |x0: f64, x1: f64, y0: f64, y1: f64| {
        let mut pts = vec![tr((x0, y0)), tr((x1, y0)), tr((x1, y1)), tr((x0, y1))];
        if axis == 1 {
            pts.reverse(); // keep the ring counter-clockwise after transposition
        }
        geo_types::MultiPolygon(vec![poly_from(&pts, &[])])
    };
    let a = rect(t(i0), t(i1), 0.0, 1.0);
    let b = rect(t(i1), t(i2), lo, hi);
    let (aa, ab) = (mp_area(&a), mp_area(&b));
    let mut cl = vec![];
    for op in OPS {
        let r = match res_of(&a, &b, op, loc) {
            Some(r) => r,
            None => {
                cl.push(format!("C06 panic {}", op_name(op)));
                continue;
            }
        };
        let edges = mp_edges(&r);
        let mut shared = false;
        for i in 0..edges.len() {
            for j in i + 1..edges.len() {
                if collinear_overlap(edges[i], edges[j]) {
                    shared = true;
                }
            }
        }
        let area = mp_area(&r);
        let close = |x: f64, y: f64| (x - y).abs() <= 1e-12;
        match op {
            Operation::Intersection => {
                if !r.0.is_empty() {
                    cl.push(format!("C06 touching-decimal-boxes-intersection-not-empty {}", op_name(op)));
                }
            }
            Operation::Difference => {
                if r.0.len() != 1 || !close(area, aa) || shared {
                    cl.push(format!("C06 touching-decimal-boxes-difference!=A {}", op_name(op)));
                }
            }
            _ => {
                if r.0.len() != 1 || shared || !close(area, aa + ab) {
                    cl.push(format!("C06 touching-decimal-boxes-not-merged {}", op_name(op)));
                }
            }
        }
    }
    cl
}

fn viol(loc: &mut Local, cl: Vec<String>, keybase: String, case: Value) {
    for c in cl {
        loc.violation(&c, format!("{keybase}:{}", clause_op(&c)), case.clone());
    }
}

fn sweep_family(st: &Stats, fam: &Family, encs: &[Enc], translates: bool) {
    let n = fam.cx.noperands();
    let name = fam.cx.name.clone();
    for &enc in encs {
        st.family(&format!(
            "{}/{}: swap on {} unordered pairs, self and 3 empty encodings on {} operands",
            name,
            enc.name(),
            (n as u64 * (n as u64 + 1)) / 2,
            n
        ));
        (0..n).into_par_iter().for_each(|a| {
            let mut loc = Local::default();
            for b in a..n {
                loc.states += 1;
                if fam.nontrivial(a, b) {
                    loc.nontrivial += 1;
                }
                let cl = swap_case(fam, enc, a, b, &mut loc);
                viol(&mut loc, cl, format!("{name}:{}:swap:{a}:{b}", enc.name()), json!({"prop": "C06", "kind": "swap", "family": name, "enc": enc.name(), "a": a, "b": b}));
            }
            loc.states += 1;
            let cl = self_case(fam, enc, a, &mut loc);
            viol(&mut loc, cl, format!("{name}:{}:self:{a}", enc.name()), json!({"prop": "C06", "kind": "self", "family": name, "enc": enc.name(), "a": a}));
            for kind in EMPTIES {
                loc.states += 1;
                let cl = empty_case(fam, enc, a, kind, &mut loc);
                viol(&mut loc, cl, format!("{name}:{}:empty:{kind}:{a}", enc.name()), json!({"prop": "C06", "kind": "empty", "family": name, "enc": enc.name(), "a": a, "empty": kind}));
            }
            st.merge(&loc);
        });
    }
    if translates {
        st.family(&format!("{name}/M: B translated to touching and to separated boxes, along x and y, all {} ordered pairs", n as u64 * n as u64));
        (0..n).into_par_iter().for_each(|a| {
            let mut loc = Local::default();
            for b in 0..n {
                for axis in 0..2u8 {
                    for gap in 0..2u8 {
                        loc.states += 1;
                        if a != 0 && b != 0 && gap == 0 {
                            loc.nontrivial += 1;
                        }
                        let cl = translate_case(fam, a, b, axis, gap, &mut loc);
                        viol(
                            &mut loc,
                            cl,
                            format!("{name}:translate:{a}:{b}:{axis}:{gap}"),
                            json!({"prop": "C06", "kind": "translate", "family": name, "a": a, "b": b, "axis": axis, "gap": gap}),
                        );
                    }
                }
            }
            st.merge(&loc);
        });
    }
}

/// float tables: regions of op(A,B) and op(B,A) agree at every witness (coordinates are computed in floating point)
fn table_swap(
    t: &crate::tables::Table,
    spec: &TableSpec,
    ia: usize,
    ib: usize,
    loc: &mut Local,
) -> Vec<String> {
    let (a, b) = (&t.ops[ia], &t.ops[ib]);
    let mut edges = a.edges.clone();
    edges.extend(b.edges.iter().cloned());
    let wit = witnesses(&edges, spec.tol(Ft::F64));
    let mut cl = vec![];
    for op in [Operation::Intersection, Operation::Union, Operation::Xor] {
        if let (Some(x), Some(y)) = (res_of(&a.mp, &b.mp, op, loc), res_of(&b.mp, &a.mp, op, loc)) {
            if wit
                .pts
                .iter()
                .any(|&w| (polywise(&x, w) >= 1) != (polywise(&y, w) >= 1))
            {
                cl.push(format!("C06 swap-changes-region {}", op_name(op)));
            }
        } else {
            cl.push(format!("C06 panic {}", op_name(op)));
        }
    }
    cl
}

pub fn replay(case: &Value, verbose: bool) -> Vec<String> {
    let mut loc = Local::default();
    let kind = case["kind"].as_str().unwrap();
    if kind == "table-swap" {
        let spec = TableSpec::from_json(&case["table"]);
        let t = spec.build();
        return table_swap(
            &t,
            &spec,
            case["a"].as_u64().unwrap() as usize,
            case["b"].as_u64().unwrap() as usize,
            &mut loc,
        );
    }
    if kind == "decimal-touch" {
        let g = |k: &str| case[k].as_u64().unwrap() as usize;
        return decimal_touch_case(g("i0"), g("i1"), g("i2"), g("yk"), g("axis") as u8, &mut loc);
    }
    let fam = family_cached(case["family"].as_str().unwrap());
    let enc = enc_from(case["enc"].as_str().unwrap_or("M"));
    let a = case["a"].as_u64().unwrap() as u32;
    let b = case["b"].as_u64().unwrap_or(0) as u32;
    if verbose {
        println!("A = {}", hex(&fam.enc(enc)[a as usize]));
        println!("B = {}", hex(&fam.enc(enc)[b as usize]));
    }
    match kind {
        "swap" => swap_case(&fam, enc, a, b, &mut loc),
        "self" => self_case(&fam, enc, a, &mut loc),
        "empty" => empty_case(&fam, enc, a, case["empty"].as_str().unwrap(), &mut loc),
        "translate" => translate_case(
            &fam,
            a,
            b,
            case["axis"].as_u64().unwrap() as u8,
            case["gap"].as_u64().unwrap() as u8,
            &mut loc,
        ),
        k => panic!("unknown C06 case kind {k}"),
    }
}

pub fn run(tier: &str) -> i32 {
    let st = Stats::new("C06", tier);
    silence_panics();
    let thorough = tier == "thorough";
    for name in QUICK_COMPLEX {
        let fam = Family::new(name);
        sweep_family(
            &st,
            &fam,
            &[Enc::M, Enc::U],
            name == "G22"
                || name == "T22"
                || (thorough && (name == "G32" || name == "O21" || name == "G23")),
        );
    }
    if thorough {
        for name in ["G43", "G34", "T32"] {
            let fam = Family::new(name);
            sweep_family(&st, &fam, &[Enc::M], false);
        }
    }
    // touching boxes with decimal coordinates (sums and differences of the coordinates round)
    {
        let mut n = 0u64;
        let mut loc = Local::default();
        for i0 in 0..16usize {
            for i1 in i0 + 1..16 {
                for i2 in i1 + 1..16 {
                    for yk in 0..4usize {
                        for axis in 0..2u8 {
                            n += 1;
                            loc.states += 1;
                            loc.nontrivial += 1;
                            let cl = decimal_touch_case(i0, i1, i2, yk, axis, &mut loc);
                            viol(&mut loc, cl, format!("decimal-touch:{i0}:{i1}:{i2}:{yk}:{axis}"), json!({"prop": "C06", "kind": "decimal-touch", "i0": i0, "i1": i1, "i2": i2, "yk": yk, "axis": axis}));
                        }
                    }
                }
            }
        }
        st.merge(&loc);
        st.family(&format!("touching rectangles with decimal coordinates: {n} configurations (all t0 < t1 < t2 in {{0.0, 0.1, ..., 1.5}}, 4 vertical placements, both axes) x 4 operations"));
    }
    // float table: commutativity as regions
    let spec = p_spec(9, st.seed, 1.0, false);
    let t = spec.build();
    let n = t.ops.len();
    let cnt = std::sync::atomic::AtomicU64::new(0);
    (0..n).into_par_iter().for_each(|ia| {
        let mut loc = Local::default();
        for ib in ia + 1..n {
            let (a, b) = (&t.ops[ia], &t.ops[ib]);
            use crate::tables::Kind;
            if a.kind == Kind::Bowtie || b.kind == Kind::Bowtie || !(thorough || a.kind == Kind::Tri || b.kind == Kind::Tri) {
                continue;
            }
            loc.states += 1;
            if crate::tables::edge_sets_interact(&a.edges, &b.edges) {
                loc.nontrivial += 1;
            }
            let cl = table_swap(&t, &spec, ia, ib, &mut loc);
            viol(&mut loc, cl, format!("{}:swap:{ia}:{ib}", spec.name), json!({"prop": "C06", "kind": "table-swap", "table": spec.json(), "a": ia, "b": ib}));
        }
        cnt.fetch_add(loc.states, std::sync::atomic::Ordering::Relaxed);
        st.merge(&loc);
    });
    st.family(&format!(
        "{}: swap as regions on {} unordered pairs",
        spec.name,
        cnt.into_inner()
    ));
    st.sample(json!({"law": "A.intersection(A) == A", "family": "G33", "a_mask": 495, "A": hex(&Family::new("G33").m[495]), "note": "3x3 ring with a hole: every edge coincides with itself"}));
    st.sample(json!({"law": "op(A, B + (2,0)) for touching boxes", "family": "G22", "a_mask": 10, "b_mask": 5}));
    finish(
        &st,
        "state = one law instance: (unordered pair, swap) | (operand, self-operation) | (operand, empty encoding) | (ordered pair, axis, gap) with B translated to a touching/separated box; transition = one call of the real implementation; ring sets are compared in a normal form that is insensitive to ring start (and, for self-operations, to direction and collinear vertices); non-trivial = both operands non-empty and sharing a boundary point",
        &["ring sets are compared flat (grouping into polygons is C02's subject)", "a polygon without vertices is not a ring: empty rings are dropped before comparing ring sets"],
        true,
        Some(&|c| replay(c, false)),
    )
}
