pub mod base;
