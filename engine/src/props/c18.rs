//! C18: splay tree work uses bounded stack regardless of element count and shape.
//! (a) stack-span probe: the key type's Drop (and the comparator) record the address of a local; the
//!     span of addresses seen during a teardown / an operation must not grow with the height of the tree.
//! (b) scale matrix: each scenario in a child process (8 MiB main stack, and a 2 MiB thread).
use super::c17;
use crate::stats::*;
use geo_booleanop::splay::SplayTree;
use rayon::prelude::*;
use serde_json::{json, Value};
use std::cell::Cell;
use std::cmp::Ordering;
use std::process::Command;

thread_local! {
    static LO: Cell<usize> = const { Cell::new(usize::MAX) };
    static HI: Cell<usize> = const { Cell::new(0) };
}

#[inline(never)]
fn probe() {
    let local = 0u8;
    let a = std::hint::black_box(&local as *const u8 as usize);
    LO.with(|c| c.set(c.get().min(a)));
    HI.with(|c| c.set(c.get().max(a)));
}

#[derive(Debug)]
struct K(u32);
impl Drop for K {
    #[inline(never)]
    fn drop(&mut self) {
        probe();
    }
}

fn span<F: FnOnce()>(f: F) -> usize {
    LO.with(|c| c.set(usize::MAX));
    HI.with(|c| c.set(0));
    f();
    let (lo, hi) = (LO.with(|c| c.get()), HI.with(|c| c.get()));
    if hi == 0 {
        0
    } else {
        hi - lo
    }
}

type Cmp = fn(&K, &K) -> Ordering;
fn kcmp(a: &K, b: &K) -> Ordering {
    probe();
    a.0.cmp(&b.0)
}

pub const ORDERS: [&str; 3] = ["ascending", "descending", "zigzag"];

fn key_at(order: &str, i: u32, n: u32) -> u32 {
    match order {
        "ascending" => i,
        "descending" => n - 1 - i,
        "zigzag" => {
            if i % 2 == 0 {
                i / 2
            } else {
                n - 1 - i / 2
            }
        }
        _ => {
            // pseudo-random permutation-ish (multiplicative hash; collisions only replace values)
            ((i as u64).wrapping_mul(2654435761) % n as u64) as u32
        }
    }
}

fn chain(order: &str, n: u32) -> SplayTree<K, (), Cmp> {
    let mut t: SplayTree<K, (), Cmp> = SplayTree::new(kcmp as Cmp);
    for i in 0..n {
        t.insert(K(key_at(order, i, n)), ());
    }
    t
}

pub const TEARDOWNS: [&str; 6] = ["drop", "clear", "into_iter-full", "into_iter-partial-front", "into_iter-partial-back", "into_iter-partial-both"];
pub const OPERATIONS: [&str; 6] = ["get-extreme", "next-extreme", "prev-extreme", "insert-extreme", "remove-extreme", "contains-absent"];

fn teardown_span(order: &str, n: u32, how: &str) -> usize {
    let mut t = chain(order, n);
    match how {
        "drop" => span(move || drop(t)),
        "clear" => span(|| t.clear()),
        "into_iter-full" => span(move || {
            let c = t.into_iter().count();
            std::hint::black_box(c);
        }),
        "into_iter-partial-front" => span(move || {
            let mut it = t.into_iter();
            it.next();
            drop(it);
        }),
        "into_iter-partial-back" => span(move || {
            let mut it = t.into_iter();
            it.next_back();
            drop(it);
        }),
        _ => span(move || {
            let mut it = t.into_iter();
            it.next();
            it.next_back();
            it.next();
            drop(it);
        }),
    }
}

fn operation_span(order: &str, n: u32, what: &str) -> usize {
    let mut t = chain(order, n);
    // the element that is deepest in a monotone chain is the one inserted first
    let deep = K(key_at(order, 0, n));
    let s = match what {
        "get-extreme" => span(|| {
            t.get(&deep);
        }),
        "next-extreme" => span(|| {
            t.next(&deep);
        }),
        "prev-extreme" => span(|| {
            t.prev(&deep);
        }),
        "insert-extreme" => span(|| {
            t.insert(K(key_at(order, 0, n)), ());
        }),
        "remove-extreme" => span(|| {
            t.remove(&deep);
        }),
        _ => span(|| {
            t.contains(&K(n + 7));
        }),
    };
    std::mem::forget(deep);
    s
}

pub const SIZES: [u32; 6] = [8, 16, 64, 256, 2048, 16384];
pub const SLACK: usize = 512;

fn probe_case(kind: &str, order: &str, what: &str) -> (Vec<String>, Vec<usize>) {
    let spans: Vec<usize> = SIZES.iter().map(|&n| if kind == "teardown" { teardown_span(order, n, what) } else { operation_span(order, n, what) }).collect();
    let mut cl = vec![];
    for (i, &s) in spans.iter().enumerate() {
        if s > spans[0] + SLACK {
            cl.push(format!("C18 stack-use-of-{what}-grows-with-tree-height ({order}, {} keys: {} bytes vs {} bytes at 8 keys)", SIZES[i], s, spans[0]));
            break;
        }
    }
    (cl, spans)
}

/// the clause without the measured numbers (replay compares clause identity)
fn clause_id(c: &str) -> String {
    c.split(" (").next().unwrap_or(c).to_string()
}

// ------------------------------------------------------------------------------------------------
// (b) scale matrix
// ------------------------------------------------------------------------------------------------

pub const ACTIONS: [&str; 9] = [
    "remove-some","drop", "clear", "into_iter-full", "into_iter-partial-front", "into_iter-partial-back", "lookups", "remove-all", "build-only-then-leak"];

/// child process entry
pub fn child(order: &str, n: u32, action: &str, stack: &str) -> i32 {
    let (o, a) = (order.to_string(), action.to_string());
    let body = move || {
        let mut t: SplayTree<u32, u32, fn(&u32, &u32) -> Ordering> = SplayTree::new(|a: &u32, b: &u32| a.cmp(b));
        for i in 0..n {
            t.insert(key_at(&o, i, n), i);
        }
        let len = t.len();
        match a.as_str() {
            "drop" => drop(t),
            "clear" => t.clear(),
            "into_iter-full" => {
                let mut last = None;
                let mut c = 0usize;
                for (k, _) in t {
                    if let Some(l) = last {
                        assert!(l < k, "iteration not strictly increasing");
                    }
                    last = Some(k);
                    c += 1;
                }
                assert_eq!(c, len);
            }
            "into_iter-partial-front" => {
                let mut it = t.into_iter();
                it.next();
                it.next();
                drop(it);
            }
            "into_iter-partial-back" => {
                let mut it = t.into_iter();
                it.next_back();
                it.next();
                drop(it);
            }
            "lookups" => {
                for probe in [0u32, n - 1, n / 2, n + 5] {
                    std::hint::black_box(t.get(&probe));
                    std::hint::black_box(t.next(&probe));
                    std::hint::black_box(t.prev(&probe));
                    std::hint::black_box(t.contains(&probe));
                }
                std::hint::black_box(t.min());
                std::hint::black_box(t.max());
            }
            "remove-some" => {
                // single removals at both ends and in the middle of the key range (each re-joins two subtrees)
                for k in [n - 2, 1, n / 2, n - 1, 0, n / 3] {
                    let had = t.contains(&k);
                    assert_eq!(t.remove(&k).is_some(), had);
                    std::hint::black_box(t.min());
                }
            }
            "remove-all" => {
                for i in 0..n {
                    t.remove(&key_at(&o, n - 1 - i, n));
                }
                assert!(t.is_empty());
            }
            _ => std::mem::forget(t),
        }
        println!("C18-OK n={n} len={len}");
    };
    if stack == "main" {
        body();
    } else {
        let bytes: usize = if stack == "thread2m" { 2 << 20 } else { 256 << 10 };
        std::thread::Builder::new().stack_size(bytes).spawn(body).unwrap().join().unwrap();
    }
    0
}

fn run_child(args: &[String], limit_s: u64) -> Result<String, String> {
    let exe = crate::run::child_exe();
    let out = Command::new("timeout").arg(limit_s.to_string()).arg(exe).args(args).output().map_err(|e| e.to_string())?;
    let so = String::from_utf8_lossy(&out.stdout).to_string();
    if out.status.success() && (so.contains("C18-OK") || so.contains("SCENARIO-OK")) {
        return Ok(so.lines().last().unwrap_or("").to_string());
    }
    use std::os::unix::process::ExitStatusExt;
    let se = String::from_utf8_lossy(&out.stderr).to_string();
    Err(if let Some(sig) = out.status.signal() {
        format!("killed by signal {sig} {}", if se.contains("overflow") { "(stack overflow)" } else { "" })
    } else if out.status.code() == Some(124) {
        format!("no return within {limit_s}s")
    } else {
        format!("exit status {:?}: {}", out.status.code(), se.lines().last().unwrap_or("").chars().take(100).collect::<String>())
    })
}

fn scale_clause(order: &str, n: u32, action: &str, stack: &str) -> String {
    format!("C18 scenario-does-not-complete {action} {order} n={n} stack={stack}")
}

pub fn replay(case: &Value, verbose: bool) -> Vec<String> {
    match case["kind"].as_str().unwrap() {
        "probe" => {
            let (cl, spans) = probe_case(case["probe_kind"].as_str().unwrap(), case["order"].as_str().unwrap(), case["what"].as_str().unwrap());
            if verbose {
                println!("stack span in bytes at {:?} keys: {:?}", SIZES, spans);
            }
            cl.iter().map(|c| clause_id(c)).collect()
        }
        "small-state" => {
            let h: Vec<c17::Op> = case["history"].as_array().unwrap().iter().map(|v| c17::parse_op(v.as_str().unwrap())).collect();
            small_state_case(&h).iter().map(|c| clause_id(c)).collect()
        }
        "scale" => {
            let (o, n, a, s) = (case["order"].as_str().unwrap(), case["n"].as_u64().unwrap() as u32, case["action"].as_str().unwrap(), case["stack"].as_str().unwrap());
            match run_child(&["--c18-scenario".into(), o.into(), n.to_string(), a.into(), s.into()], 600) {
                Ok(l) => {
                    if verbose {
                        println!("{l}");
                    }
                    vec![]
                }
                Err(e) => {
                    if verbose {
                        println!("{e}");
                    }
                    vec![scale_clause(o, n, a, s)]
                }
            }
        }
        "sweep" => {
            let (name, edges, op) = (case["name"].as_str().unwrap(), case["edges"].as_u64().unwrap(), case["op"].as_str().unwrap());
            match run_child(&["--scenario".into(), name.into(), edges.to_string(), op.into(), "f64".into()], 900) {
                Ok(_) => vec![],
                Err(_) => vec![format!("C18 boolean-operation-with-large-sweep-line-does-not-complete {name} edges={edges} {op}")],
            }
        }
        k => panic!("unknown C18 case {k}"),
    }
}

/// teardown of one small tree (a state of the C17 search) with the probing key type: the span must stay
/// within the slack of the single-element teardown
fn small_state_case(h: &[c17::Op]) -> Vec<String> {
    let keys: Vec<i8> = c17::build(h).m.keys().cloned().collect();
    let build = || {
        // the same shape is reproduced by replaying the history on the probing key type
        let mut t: SplayTree<K, (), Cmp> = SplayTree::new(kcmp as Cmp);
        for &op in h {
            match op {
                c17::Op::Ins(k, _) => {
                    t.insert(K((k + 1) as u32), ());
                }
                c17::Op::Rem(k) => {
                    let p = K((k + 1) as u32);
                    t.remove(&p);
                    std::mem::forget(p);
                }
                c17::Op::Get(k) | c17::Op::GetMutFlip(k) | c17::Op::Find(k) | c17::Op::Contains(k) => {
                    let p = K((k + 1) as u32);
                    t.contains(&p);
                    std::mem::forget(p);
                }
                c17::Op::Index(k) | c17::Op::IndexMutFlip(k) => {
                    if keys.contains(&k) || true {
                        let p = K((k + 1) as u32);
                        t.contains(&p);
                        std::mem::forget(p);
                    }
                }
                c17::Op::Next(k) => {
                    let p = K((k + 1) as u32);
                    t.next(&p);
                    std::mem::forget(p);
                }
                c17::Op::Prev(k) => {
                    let p = K((k + 1) as u32);
                    t.prev(&p);
                    std::mem::forget(p);
                }
                c17::Op::Clear => t.clear(),
                c17::Op::Extend2(a, b) => {
                    t.insert(K((a + 1) as u32), ());
                    t.insert(K((b + 1) as u32), ());
                }
                _ => {}
            }
        }
        t
    };
    let base = {
        let mut t: SplayTree<K, (), Cmp> = SplayTree::new(kcmp as Cmp);
        t.insert(K(1), ());
        span(move || drop(t))
    };
    let mut cl = vec![];
    for how in TEARDOWNS {
        let mut t = build();
        let s = match how {
            "drop" => span(move || drop(t)),
            "clear" => span(|| t.clear()),
            "into_iter-full" => span(move || {
                std::hint::black_box(t.into_iter().count());
            }),
            "into_iter-partial-front" => span(move || {
                let mut it = t.into_iter();
                it.next();
                drop(it);
            }),
            "into_iter-partial-back" => span(move || {
                let mut it = t.into_iter();
                it.next_back();
                drop(it);
            }),
            _ => span(move || {
                let mut it = t.into_iter();
                it.next();
                it.next_back();
                drop(it);
            }),
        };
        if s > base + SLACK + 256 {
            cl.push(format!("C18 stack-use-of-{how}-of-a-small-tree-exceeds-the-constant-bound ({s} bytes vs {base})"));
        }
    }
    cl
}

pub fn run(tier: &str) -> i32 {
    let st = Stats::new("C18", tier);
    crate::run::silence_panics();
    let thorough = tier == "thorough";
    // ---- (a) probes on chains
    let mut cases: Vec<(&str, &str, &str)> = vec![];
    for order in ORDERS {
        for how in TEARDOWNS {
            cases.push(("teardown", order, how));
        }
        for what in OPERATIONS {
            cases.push(("operation", order, what));
        }
    }
    st.family(&format!("stack-span probe: {} teardown paths and {} operations x {:?} chains of {:?} keys; span(n) <= span(8) + {SLACK} bytes", TEARDOWNS.len(), OPERATIONS.len(), ORDERS, SIZES));
    for (kind, order, what) in &cases {
        let (cl, spans) = probe_case(kind, order, what);
        st.state(true);
        st.trans(SIZES.len() as u64);
        st.max("max_stack_span_bytes_over_all_probes", *spans.iter().max().unwrap() as f64);
        for c in cl {
            st.note(&c);
            st.violation(&clause_id(&c), format!("probe:{kind}:{order}:{what}"), json!({"prop": "C18", "kind": "probe", "probe_kind": kind, "order": order, "what": what}));
        }
    }
    st.sample(json!({"probe": "teardown drop, ascending chain", "sizes": SIZES, "stack_span_bytes": SIZES.iter().map(|&n| teardown_span("ascending", n, "drop")).collect::<Vec<_>>()}));
    // ---- (a') every shape of the C17 search, torn down with the probing key type
    let (s, _) = c17::search(if thorough { 7 } else { 6 }, 3_000_000);
    st.family(&format!("stack-span probe of all 6 teardown paths on every one of the {} tree shapes of the C17 search", s.states.len()));
    s.states.par_iter().for_each(|h| {
        let cl = small_state_case(h);
        st.state(h.len() >= 2);
        st.trans(TEARDOWNS.len() as u64);
        for c in cl {
            st.violation(&clause_id(&c), format!("small-state:{:?}", h), json!({"prop": "C18", "kind": "small-state", "history": c17::op_json(h)}));
        }
    });
    // ---- (b) scale matrix
    let sizes: Vec<u32> = if thorough { vec![100_000, 3_000_000, 6_000_000] } else { vec![100_000, 3_000_000] };
    let mut jobs: Vec<(String, u32, String, String)> = vec![];
    for &n in &sizes {
        for order in ["ascending", "descending", "zigzag", "pseudo-random"] {
            for action in ACTIONS {
                for stack in ["main", "thread2m"] {
                    if !thorough && n > 100_000 && (order == "pseudo-random" || order == "zigzag") && stack == "thread2m" {
                        continue;
                    }
                    jobs.push((order.into(), n, action.into(), stack.into()));
                }
            }
        }
    }
    st.family(&format!("scale matrix: {} child processes: orders x sizes {:?} x {} actions x {{8 MiB main stack, 2 MiB thread}}", jobs.len(), sizes, ACTIONS.len()));
    let pool = rayon::ThreadPoolBuilder::new().num_threads(8).build().unwrap();
    let results: Vec<_> = pool.install(|| {
        jobs.par_iter().map(|(o, n, a, s)| (o, n, a, s, run_child(&["--c18-scenario".into(), o.clone(), n.to_string(), a.clone(), s.clone()], 600))).collect()
    });
    for (o, n, a, s, r) in results {
        st.state(true);
        st.trans(1);
        if let Err(e) = r {
            let c = scale_clause(o, *n, a, s);
            st.note(&format!("{c}: {e}"));
            st.violation(&c, format!("scale:{o}:{n}:{a}:{s}"), json!({"prop": "C18", "kind": "scale", "order": o, "n": n, "action": a, "stack": s}));
        }
    }
    // ---- boolean operations whose sweep stops early with a huge status structure
    let edges: Vec<u64> = if thorough { vec![2_000_000, 4_000_000] } else { vec![2_000_000] };
    let mut sweeps = vec![];
    for &e in &edges {
        for (name, op) in [("stack-left", "intersection"), ("stack-left", "difference"), ("stack-right", "intersection"), ("stack-stack", "intersection")] {
            sweeps.push((name, e, op));
        }
    }
    st.family(&format!("boolean operations with ~{:?} edges whose sweep line holds several 10^5 segments when the sweep stops early ({} child processes)", edges, sweeps.len()));
    let results: Vec<_> = pool.install(|| sweeps.par_iter().map(|&(name, e, op)| (name, e, op, run_child(&["--scenario".into(), name.into(), e.to_string(), op.into(), "f64".into()], 900))).collect());
    for (name, e, op, r) in results {
        st.state(true);
        st.trans(1);
        match r {
            Ok(line) => st.sample(json!({"sweep_scenario": line})),
            Err(why) => {
                let c = format!("C18 boolean-operation-with-large-sweep-line-does-not-complete {name} edges={e} {op}");
                st.note(&format!("{c}: {why}"));
                st.violation(&c, format!("sweep:{name}:{e}:{op}"), json!({"prop": "C18", "kind": "sweep", "name": name, "edges": e, "op": op}));
            }
        }
    }
    finish(
        &st,
        "states = (teardown path | operation, insertion order) probed over chains of 8..16384 keys with a key type whose Drop and comparator record a stack address (the span must not grow with the height: a recursive teardown grows by one frame per level, so the defect is decided at height 16 without needing a crash); every tree shape of the C17 search torn down by all 6 paths; scale matrix of child processes {ascending, descending, zigzag, pseudo-random} x sizes x {drop, clear, into_iter full/partial front/back, lookups, remove-all, build} on the 8 MiB main stack and a 2 MiB thread; Boolean operations whose sweep stops early with ~5*10^5 segments in the status structure; transition = one probed operation / one child process",
        &["the scale matrix and the sweep scenarios are a scenario matrix (exhaustive over the matrix, not over inputs)", "stack addresses are observed through a #[inline(never)] probe function; 512 bytes of slack absorb frame layout noise"],
        true,
        Some(&|c| replay(c, false)),
    )
}
