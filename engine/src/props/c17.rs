//! C17: the splay tree behaves as a sorted map/set for every operation history — explicit-state
//! search over tree *shapes* (lookups restructure the tree, so they are transitions too), to a fixpoint.
use crate::stats::*;
use geo_booleanop::splay::{SplaySet, SplayTree};
use rayon::prelude::*;
use serde_json::{json, Value};
use std::cell::Cell;
use std::cmp::Ordering;
use std::collections::{BTreeMap, BTreeSet, HashMap};
use std::ops::Bound;
use std::panic::{catch_unwind, AssertUnwindSafe};

thread_local! {
    static LIVE: Cell<i64> = const { Cell::new(0) };
}

/// value type that counts live instances (a leak or a double drop shows up in the balance)
#[derive(Debug, PartialEq, Eq)]
pub struct Tv(pub u8);
impl Tv {
    fn new(v: u8) -> Tv {
        LIVE.with(|c| c.set(c.get() + 1));
        Tv(v)
    }
}
impl Drop for Tv {
    fn drop(&mut self) {
        LIVE.with(|c| c.set(c.get() - 1));
    }
}

type Cmp = fn(&i8, &i8) -> Ordering;
type Tree = SplayTree<i8, Tv, Cmp>;
type Set = SplaySet<i8, Cmp>;
type UnitTree = SplayTree<i8, (), Cmp>;

fn cmp(a: &i8, b: &i8) -> Ordering {
    a.cmp(b)
}

#[derive(Clone, Copy, Debug, PartialEq, Eq, Hash)]
pub enum Op {
    Ins(i8, u8),
    Rem(i8),
    Get(i8),
    GetMutFlip(i8),
    Index(i8),
    IndexMutFlip(i8),
    Find(i8),
    Contains(i8),
    Next(i8),
    Prev(i8),
    Min,
    Max,
    Clear,
    Len,
    Extend2(i8, i8),
}

pub fn alphabet(k: i8) -> Vec<Op> {
    let mut ops = vec![Op::Min, Op::Max, Op::Len, Op::Clear];
    for key in 0..k {
        ops.extend([Op::Ins(key, 0), Op::Ins(key, 1), Op::Rem(key), Op::Get(key), Op::GetMutFlip(key), Op::Index(key), Op::IndexMutFlip(key)]);
    }
    for key in -1..=k {
        ops.extend([Op::Find(key), Op::Contains(key), Op::Next(key), Op::Prev(key)]);
    }
    for a in 0..k {
        for b in 0..k {
            ops.push(Op::Extend2(a, b));
        }
    }
    ops
}

pub struct Sys {
    pub t: Tree,
    pub m: BTreeMap<i8, u8>,
    // the same history on a SplaySet and on a SplayTree<_, ()> (whose Debug rendering exposes the set's shape)
    pub s: Set,
    pub su: UnitTree,
    pub sm: BTreeSet<i8>,
}

impl Sys {
    pub fn new() -> Sys {
        Sys { t: SplayTree::new(cmp as Cmp), m: BTreeMap::new(), s: SplaySet::new(cmp as Cmp), su: SplayTree::new(cmp as Cmp), sm: BTreeSet::new() }
    }
    pub fn key(&self) -> String {
        if std::env::var("VERIF_NOSU").is_ok() { format!("{:?}", self.t) } else { format!("{:?}|{:?}", self.t, self.su) }
    }
}

/// applies one operation to the real structures and the reference models; returns the first disagreement
pub fn step(sys: &mut Sys, op: Op) -> Option<String> {
    let Sys { t, m, s, su, sm } = sys;
    let bad = |what: &str| Some(format!("C17 {what}"));
    match op {
        Op::Ins(k, v) => {
            if t.insert(k, Tv::new(v)).map(|x| x.0) != m.insert(k, v) {
                return bad("insert-returns-wrong-previous-value");
            }
            let fresh = sm.insert(k);
            su.insert(k, ());
            if s.insert(k) != fresh {
                return bad("set-insert-returns-wrong-flag");
            }
        }
        Op::Rem(k) => {
            if t.remove(&k).map(|x| x.0) != m.remove(&k) {
                return bad("remove-returns-wrong-value");
            }
            let had = sm.remove(&k);
            su.remove(&k);
            if s.remove(&k) != had {
                return bad("set-remove-returns-wrong-flag");
            }
        }
        Op::Get(k) => {
            if t.get(&k).map(|x| x.0) != m.get(&k).cloned() {
                return bad("get-returns-wrong-value");
            }
            su.get(&k);
            let _ = s.contains(&k);
        }
        Op::GetMutFlip(k) => {
            let a = t.get_mut(&k).map(|x| {
                x.0 ^= 1;
                x.0
            });
            let b = m.get_mut(&k).map(|x| {
                *x ^= 1;
                *x
            });
            // keep the mirrored set structures in lockstep (same splay path)
            su.get_mut(&k);
            let _ = s.contains(&k);
            if a != b {
                return bad("get_mut-returns-wrong-value");
            }
        }
        Op::Index(k) => {
            if m.contains_key(&k) {
                su.get(&k);
                let _ = s.contains(&k);
                if t[&k].0 != m[&k] {
                    return bad("index-returns-wrong-value");
                }
            }
        }
        Op::IndexMutFlip(k) => {
            if m.contains_key(&k) {
                t[&k].0 ^= 1;
                *m.get_mut(&k).unwrap() ^= 1;
                su.get_mut(&k);
                let _ = s.contains(&k);
                if t[&k].0 != m[&k] {
                    return bad("index_mut-writes-wrong-element");
                }
            }
        }
        Op::Find(k) => {
            if t.find_key(&k) != m.get_key_value(&k).map(|x| x.0) {
                return bad("find_key-returns-wrong-key");
            }
            su.find_key(&k);
            if s.find(&k) != sm.get(&k) {
                return bad("set-find-returns-wrong-key");
            }
        }
        Op::Contains(k) => {
            if t.contains(&k) != m.contains_key(&k) {
                return bad("contains-wrong");
            }
            su.contains(&k);
            if s.contains(&k) != sm.contains(&k) {
                return bad("set-contains-wrong");
            }
        }
        Op::Next(k) => {
            if t.next(&k).map(|(a, b)| (*a, b.0)) != m.range((Bound::Excluded(k), Bound::Unbounded)).next().map(|(a, b)| (*a, *b)) {
                return bad("next-returns-wrong-successor");
            }
            su.next(&k);
            if s.next(&k) != sm.range((Bound::Excluded(k), Bound::Unbounded)).next() {
                return bad("set-next-returns-wrong-successor");
            }
        }
        Op::Prev(k) => {
            if t.prev(&k).map(|(a, b)| (*a, b.0)) != m.range(..k).next_back().map(|(a, b)| (*a, *b)) {
                return bad("prev-returns-wrong-predecessor");
            }
            su.prev(&k);
            if s.prev(&k) != sm.range(..k).next_back() {
                return bad("set-prev-returns-wrong-predecessor");
            }
        }
        Op::Min => {
            if t.min() != m.keys().next() || s.min() != sm.iter().next() {
                return bad("min-wrong");
            }
        }
        Op::Max => {
            if t.max() != m.keys().next_back() || s.max() != sm.iter().next_back() {
                return bad("max-wrong");
            }
        }
        Op::Clear => {
            t.clear();
            m.clear();
            s.clear();
            su.clear();
            sm.clear();
        }
        Op::Len => {}
        Op::Extend2(a, b) => {
            t.extend([(a, Tv::new(0)), (b, Tv::new(1))]);
            m.extend([(a, 0), (b, 1)]);
            s.extend([a, b]);
            su.extend([(a, ()), (b, ())]);
            sm.extend([a, b]);
        }
    }
    if t.len() != m.len() || t.is_empty() != m.is_empty() {
        return bad("len-differs-from-number-of-stored-keys");
    }
    if s.len() != sm.len() || s.is_empty() != sm.is_empty() {
        return bad("set-len-differs-from-number-of-stored-keys");
    }
    None
}

pub fn build(h: &[Op]) -> Sys {
    let mut sys = Sys::new();
    for &op in h {
        let _ = step(&mut sys, op);
    }
    sys
}

/// per-state checks: in-order contents, consuming iteration under every front/back pattern and every
/// partial consumption, reference stability under `depth` further lookups
pub fn state_checks(h: &[Op], k: i8, depth: usize) -> (Vec<String>, u64) {
    let mut cl: Vec<String> = vec![];
    let mut add = |s: String| {
        if !cl.contains(&s) {
            cl.push(s);
        }
    };
    let mut work = 0u64;
    let model: Vec<(i8, u8)> = build(h).m.iter().map(|(a, b)| (*a, *b)).collect();
    let n = model.len();
    // every front/back pattern of every length <= n (shorter ones are partial consumptions followed by drop)
    for len in 0..=n {
        for pat in 0..(1u32 << len) {
            work += 1;
            let sys = build(h);
            let Sys { t, s, .. } = sys;
            let mut it = t.into_iter();
            let mut sit = s.into_iter();
            let (mut lo, mut hi) = (0usize, n);
            for j in 0..len {
                if it.size_hint() != (hi - lo, Some(hi - lo)) || it.len() != hi - lo {
                    add("C17 into_iter-size_hint-wrong".into());
                }
                let back = (pat >> j) & 1 == 1;
                let (got, sgot, want) = if back {
                    hi -= 1;
                    (it.next_back(), sit.next_back(), model[hi])
                } else {
                    lo += 1;
                    (it.next(), sit.next(), model[lo - 1])
                };
                match got {
                    Some((a, b)) if (a, b.0) == want => {}
                    _ => add("C17 into_iter-yields-wrong-element".into()),
                }
                if sgot != Some(want.0) {
                    add("C17 set-into_iter-yields-wrong-element".into());
                }
            }
            if len == n {
                if it.next().is_some() || it.next_back().is_some() || sit.next().is_some() {
                    add("C17 into_iter-yields-more-than-len-elements".into());
                }
                if it.size_hint() != (0, Some(0)) {
                    add("C17 into_iter-size_hint-wrong".into());
                }
            }
            drop(it);
            drop(sit);
            if LIVE.with(|c| c.get()) != 0 {
                add(format!("C17 element-leaked-or-dropped-twice-after-{}-consumption", if len == n { "full" } else { "partial" }));
                LIVE.with(|c| c.set(0));
            }
        }
    }
    // teardown by drop and by clear
    {
        let sys = build(h);
        drop(sys);
        if LIVE.with(|c| c.get()) != 0 {
            add("C17 element-leaked-or-dropped-twice-on-drop".into());
            LIVE.with(|c| c.set(0));
        }
    }
    // reference stability
    let probes: Vec<i8> = (-1..=k).collect();
    #[derive(Clone, Copy)]
    enum L {
        Get(i8),
        Find(i8),
        Contains(i8),
        Next(i8),
        Prev(i8),
        Min,
        Max,
    }
    let mut lookups = vec![L::Min, L::Max];
    for &p in &probes {
        lookups.extend([L::Get(p), L::Find(p), L::Contains(p), L::Next(p), L::Prev(p)]);
    }
    let apply = |t: &Tree, l: L| match l {
        L::Get(p) => {
            t.get(&p);
        }
        L::Find(p) => {
            t.find_key(&p);
        }
        L::Contains(p) => {
            t.contains(&p);
        }
        L::Next(p) => {
            t.next(&p);
        }
        L::Prev(p) => {
            t.prev(&p);
        }
        L::Min => {
            t.min();
        }
        L::Max => {
            t.max();
        }
    };
    let mut seqs: Vec<Vec<L>> = vec![vec![]];
    let mut all: Vec<Vec<L>> = vec![];
    for _ in 0..depth {
        let mut nx = vec![];
        for s in &seqs {
            for &l in &lookups {
                let mut s2 = s.clone();
                s2.push(l);
                nx.push(s2);
            }
        }
        all.extend(nx.iter().cloned());
        seqs = nx;
    }
    // references to ALL present elements are held at once across every lookup sequence
    for seq in &all {
        work += 1;
        let sys = build(h);
        let t = &sys.t;
        let held: Vec<(&Tv, &i8)> = model.iter().map(|&(key, _)| (t.get(&key).unwrap(), t.find_key(&key).unwrap())).collect();
        for &l in seq {
            apply(t, l);
        }
        for (i, &(key, val)) in model.iter().enumerate() {
            let (rv, rk) = held[i];
            if rv.0 != val || *rk != key {
                add("C17 reference-from-lookup-denotes-another-element-after-further-lookups".into());
            }
        }
        for (i, &(key, _)) in model.iter().enumerate() {
            let (rv, rk) = held[i];
            let fresh: &Tv = t.get(&key).unwrap();
            let freshk: &i8 = t.find_key(&key).unwrap();
            if !std::ptr::eq(fresh, rv) || !std::ptr::eq(freshk, rk) {
                add("C17 reference-from-lookup-no-longer-the-element's-address".into());
            }
        }
    }
    // references handed out by next/prev/min/max
    if n > 0 {
        for seq in &all {
            let sys = build(h);
            let t = &sys.t;
            let (mk, xk) = (*t.min().unwrap(), *t.max().unwrap());
            let rmin = t.min().unwrap();
            let rmax = t.max().unwrap();
            let rn = t.next(&(mk - 1));
            let rp = t.prev(&(xk + 1));
            for &l in seq {
                apply(t, l);
            }
            if *rmin != mk || *rmax != xk || rn.map(|x| *x.0) != Some(mk) || rp.map(|x| *x.0) != Some(xk) || rn.map(|x| x.1 .0) != Some(model[0].1) || rp.map(|x| x.1 .0) != Some(model[n - 1].1) {
                add("C17 reference-from-min/max/next/prev-denotes-another-element-after-further-lookups".into());
            }
        }
    }
    (cl, work)
}

pub fn op_json(h: &[Op]) -> Value {
    json!(h.iter().map(|o| format!("{:?}", o)).collect::<Vec<_>>())
}

pub fn parse_op(s: &str) -> Op {
    let inner = |s: &str| -> Vec<i64> { s[s.find('(').unwrap() + 1..s.len() - 1].split(',').map(|x| x.trim().parse().unwrap()).collect() };
    if s.starts_with("Ins") {
        let v = inner(s);
        Op::Ins(v[0] as i8, v[1] as u8)
    } else if s.starts_with("Rem") {
        Op::Rem(inner(s)[0] as i8)
    } else if s.starts_with("GetMutFlip") {
        Op::GetMutFlip(inner(s)[0] as i8)
    } else if s.starts_with("Get") {
        Op::Get(inner(s)[0] as i8)
    } else if s.starts_with("IndexMutFlip") {
        Op::IndexMutFlip(inner(s)[0] as i8)
    } else if s.starts_with("Index") {
        Op::Index(inner(s)[0] as i8)
    } else if s.starts_with("Find") {
        Op::Find(inner(s)[0] as i8)
    } else if s.starts_with("Contains") {
        Op::Contains(inner(s)[0] as i8)
    } else if s.starts_with("Next") {
        Op::Next(inner(s)[0] as i8)
    } else if s.starts_with("Prev") {
        Op::Prev(inner(s)[0] as i8)
    } else if s.starts_with("Extend2") {
        let v = inner(s);
        Op::Extend2(v[0] as i8, v[1] as i8)
    } else {
        match s {
            "Min" => Op::Min,
            "Max" => Op::Max,
            "Clear" => Op::Clear,
            _ => Op::Len,
        }
    }
}

fn guarded<T>(f: impl FnOnce() -> T) -> Result<T, String> {
    LIVE.with(|c| c.set(0));
    let r = catch_unwind(AssertUnwindSafe(f)).map_err(crate::run::panic_msg);
    if r.is_err() {
        LIVE.with(|c| c.set(0));
    }
    r
}

pub struct Search {
    pub states: Vec<Vec<Op>>, // shortest history per state, in BFS order
    pub transitions: u64,
    pub max_depth: usize,
    pub viol: Vec<(String, Vec<Op>)>,
}

/// BFS over tree shapes to the fixpoint
pub fn search(k: i8, state_cap: usize) -> (Search, bool) {
    let ops = alphabet(k);
    let mut seen: HashMap<String, usize> = HashMap::new();
    let mut states: Vec<Vec<Op>> = vec![vec![]];
    seen.insert(Sys::new().key(), 0);
    let mut frontier: Vec<usize> = vec![0];
    let mut transitions = 0u64;
    let mut viol: Vec<(String, Vec<Op>)> = vec![];
    let mut depth = 0;
    let mut capped = false;
    while !frontier.is_empty() {
        depth += 1;
        let results: Vec<Vec<(Vec<Op>, Result<(Option<String>, String), String>)>> = frontier
            .par_iter()
            .map(|&si| {
                let h = &states[si];
                ops.iter()
                    .map(|&op| {
                        let mut nh = h.clone();
                        nh.push(op);
                        let r = guarded(|| {
                            let mut sys = build(h);
                            let bad = step(&mut sys, op);
                            let key = sys.key();
                            if std::env::var("VERIF_DEBUG2").is_ok() {
                                let a = format!("{:?}", sys.t).replace("Tv(0)", "()").replace("Tv(1)", "()");
                                let b = format!("{:?}", sys.su);
                                if a != b {
                                    eprintln!("DIVERGE after {:?}\n t ={a}\n su={b}", nh);
                                    std::process::exit(3);
                                }
                            }
                            (bad, key)
                        });
                        (nh, r)
                    })
                    .collect()
            })
            .collect();
        let mut next = vec![];
        for per_state in results {
            for (nh, r) in per_state {
                transitions += 1;
                match r {
                    Err(m) => viol.push((format!("C17 operation-panics: {}", m.chars().take(60).collect::<String>()), nh)),
                    Ok((bad, key)) => {
                        if let Some(b) = bad {
                            viol.push((b, nh.clone()));
                        }
                        if !seen.contains_key(&key) {
                            seen.insert(key, states.len());
                            next.push(states.len());
                            states.push(nh);
                        }
                    }
                }
            }
        }
        frontier = next;
        if std::env::var("VERIF_DEBUG").is_ok() {
            eprintln!("depth {depth}: {} states, frontier {}", states.len(), frontier.len());
        }
        if states.len() > state_cap {
            capped = true;
            break;
        }
    }
    (Search { states, transitions, max_depth: depth - 1, viol }, capped)
}

pub fn replay(case: &Value, verbose: bool) -> Vec<String> {
    if case["kind"] == "long" {
        return long_history_run(case["seed"].as_u64().unwrap(), case["history_index"].as_u64().unwrap(), case["len"].as_u64().unwrap() as usize)
            .map(|x| vec![x.0])
            .unwrap_or_default();
    }
    let h: Vec<Op> = case["history"].as_array().unwrap().iter().map(|v| parse_op(v.as_str().unwrap())).collect();
    let k = case["keys"].as_i64().unwrap() as i8;
    let depth = case["stability_depth"].as_u64().unwrap_or(2) as usize;
    if verbose {
        println!("history: {:?}", h);
    }
    let mut cl = vec![];
    // transition clauses: replay the history step by step
    match guarded(|| {
        let mut sys = Sys::new();
        let mut out = vec![];
        for &op in &h {
            if let Some(b) = step(&mut sys, op) {
                out.push(b);
            }
        }
        if verbose {
            println!("tree after the history: {}", sys.key());
        }
        out
    }) {
        Ok(v) => cl.extend(v),
        Err(m) => cl.push(format!("C17 operation-panics: {}", m.chars().take(60).collect::<String>())),
    }
    if case["kind"] == "state" {
        match guarded(|| state_checks(&h, k, depth).0) {
            Ok(v) => cl.extend(v),
            Err(m) => cl.push(format!("C17 state-check-panics: {}", m.chars().take(60).collect::<String>())),
        }
    }
    cl
}

/// one deterministic pseudo-random long history (a supplement, labelled sampling)
fn long_history_run(seed: u64, hi: u64, len: usize) -> Option<(String, usize)> {
    let nk = 64i8;
    let mut x = seed.wrapping_mul(0x9E3779B97F4A7C15) ^ hi.wrapping_mul(0xD1B54A32D192ED03) ^ 0x1234567;
    let mut rnd = move || {
        x ^= x << 13;
        x ^= x >> 7;
        x ^= x << 17;
        x
    };
    let r = guarded(|| {
        let mut sys = Sys::new();
        for i in 0..len {
            let key = (rnd() % nk as u64) as i8;
            let op = match rnd() % 12 {
                0..=3 => Op::Ins(key, (rnd() % 2) as u8),
                4 | 5 => Op::Rem(key),
                6 => Op::Get(key),
                7 => Op::Next(key),
                8 => Op::Prev(key),
                9 => Op::Find(key),
                10 => Op::GetMutFlip(key),
                _ => {
                    if rnd() % 64 == 0 {
                        Op::Clear
                    } else if rnd() % 2 == 0 {
                        Op::Min
                    } else {
                        Op::Max
                    }
                }
            };
            if let Some(b) = step(&mut sys, op) {
                return Some((b, i));
            }
        }
        let want: Vec<(i8, u8)> = sys.m.iter().map(|(a, b)| (*a, *b)).collect();
        let got: Vec<(i8, u8)> = sys.t.into_iter().map(|(a, b)| (a, b.0)).collect();
        if got != want {
            return Some(("C17 into_iter-yields-wrong-element".to_string(), len));
        }
        None
    });
    match r {
        Ok(x) => x,
        Err(m) => Some((format!("C17 operation-panics: {}", m.chars().take(60).collect::<String>()), 0)),
    }
}

fn long_histories(st: &Stats, n_hist: usize, len: usize) {
    let results: Vec<Option<(String, usize, u64)>> =
        (0..n_hist).into_par_iter().map(|hi| long_history_run(st.seed, hi as u64, len).map(|(b, i)| (b, i, hi as u64))).collect();
    st.add("supplement_long_pseudo_random_histories (sampling, not part of the exhaustive claim)", n_hist as u64);
    st.add("supplement_long_history_operations", (n_hist * len) as u64);
    for (b, i, hi) in results.into_iter().flatten() {
        st.violation(&b, format!("long-history:{hi}:seed{}", st.seed), json!({"prop": "C17", "kind": "long", "history_index": hi, "seed": st.seed, "failing_step": i, "len": len}));
    }
}

pub fn run(tier: &str) -> i32 {
    let st = Stats::new("C17", tier);
    crate::run::silence_panics();
    let thorough = tier == "thorough";
    let k: i8 = if thorough { 7 } else { 6 };
    let depth = if thorough { 3 } else { 2 };
    let t0 = std::time::Instant::now();
    let (s, capped) = search(k, 3_000_000);
    if std::env::var("VERIF_DEBUG").is_ok() {
        eprintln!("bfs: {} states {} transitions in {:?}", s.states.len(), s.transitions, t0.elapsed());
    }
    if capped {
        st.cap("state cap hit before the fixpoint");
    }
    st.states.fetch_add(s.states.len() as u64, std::sync::atomic::Ordering::Relaxed);
    st.nontrivial.fetch_add(s.states.iter().filter(|h| h.len() >= 2).count() as u64, std::sync::atomic::Ordering::Relaxed);
    st.trans(s.transitions);
    st.max("bfs_depth_at_fixpoint", s.max_depth as f64);
    st.family(&format!(
        "SplayTree<i8,_> and SplaySet<i8> over keys 0..{k} (probes -1..={k}), values 0/1, {} operations: {} distinct tree shapes reached, {} transitions, {}",
        alphabet(k).len(),
        s.states.len(),
        s.transitions,
        if capped { "CAPPED".to_string() } else { format!("FIXPOINT at BFS depth {} (histories of every length covered)", s.max_depth) }
    ));
    for (b, h) in &s.viol {
        st.violation(b, format!("k{k}:{:?}", h), json!({"prop": "C17", "kind": "transition", "keys": k, "history": op_json(h)}));
    }
    // per-state checks (thorough: stability depth 3 on the k=5 sub-universe to keep the product bounded)
    let (chk_states, chk_k): (Vec<Vec<Op>>, i8) = if thorough && depth == 3 { (search(5, 3_000_000).0.states, 5) } else { (s.states.clone(), k) };
    let work = std::sync::atomic::AtomicU64::new(0);
    let all_states = &s.states;
    // iteration patterns and depth-2 stability on every state of the main search
    all_states.par_iter().for_each(|h| match guarded(|| state_checks(h, k, 2.min(depth))) {
        Ok((cl, w)) => {
            work.fetch_add(w, std::sync::atomic::Ordering::Relaxed);
            for c in cl {
                st.violation(&c, format!("k{k}:state:{:?}:{c}", h), json!({"prop": "C17", "kind": "state", "keys": k, "stability_depth": 2.min(depth), "history": op_json(h)}));
            }
        }
        Err(m) => st.violation(&format!("C17 state-check-panics: {}", m.chars().take(60).collect::<String>()), format!("k{k}:state:{:?}", h), json!({"prop": "C17", "kind": "state", "keys": k, "stability_depth": 2, "history": op_json(h)})),
    });
    if thorough && depth == 3 {
        chk_states.par_iter().for_each(|h| {
            if let Ok((cl, w)) = guarded(|| state_checks(h, chk_k, 3)) {
                work.fetch_add(w, std::sync::atomic::Ordering::Relaxed);
                for c in cl {
                    st.violation(&c, format!("k{chk_k}:state3:{:?}:{c}", h), json!({"prop": "C17", "kind": "state", "keys": chk_k, "stability_depth": 3, "history": op_json(h)}));
                }
            }
        });
        st.family(&format!("reference stability under every sequence of <= 3 lookups on all {} shapes over {chk_k} keys", chk_states.len()));
    }
    st.add("iteration_patterns_and_stability_sequences_executed", work.into_inner());
    st.trans(0);
    long_histories(&st, if thorough { 64 } else { 16 }, 100_000);
    if thorough {
        // context, not a verdict: the small-scope search replayed under Miri (crate /verif/miri_splay)
        for (flags, keys, label) in [("-Zmiri-tree-borrows", "3", "Tree Borrows"), ("", "2", "Stacked Borrows")] {
            let out = std::process::Command::new("timeout")
                .args(["1500", "cargo", "+nightly", "miri", "run", "--", keys])
                .current_dir("/verif/miri_splay")
                .env("MIRIFLAGS", flags)
                .env("CARGO_NET_OFFLINE", "true")
                .output();
            let note = match out {
                Err(e) => format!("Miri ({label}) could not be started: {e}"),
                Ok(o) => {
                    let so = String::from_utf8_lossy(&o.stdout).to_string();
                    let se = String::from_utf8_lossy(&o.stderr).to_string();
                    if let Some(l) = so.lines().find(|l| l.contains("MIRI-SPLAY-OK")) {
                        format!("Miri ({label}), {keys} keys: no undefined behaviour reported: {l}")
                    } else {
                        let first = se.lines().find(|l| l.starts_with("error")).unwrap_or("no MIRI-SPLAY-OK line").to_string();
                        format!("Miri ({label}), {keys} keys: {}", first.chars().take(240).collect::<String>())
                    }
                }
            };
            st.note(&format!("context (not a verdict): {note}"));
        }
    }
    let deepest = s.states.last().cloned().unwrap_or_default();
    st.sample(json!({"history_reaching_the_last_discovered_shape": op_json(&deepest), "shape": build(&deepest).key()}));
    st.sample(json!({"per_state_check": "consuming iteration under every front/back pattern of every length (partial consumption then drop), live-instance balance, reference stability under every sequence of <= 2 lookups"}));
    LIVE.with(|c| c.set(0));
    finish(
        &st,
        "explicit-state search: state = operation history, canonical key = Debug rendering of the tree (shape and contents; lookups splay, so they are transitions) together with the shape of the mirrored set; alphabet = insert/remove/get/get_mut/Index/IndexMut/find_key/contains/next/prev (probes also below and above the key range)/min/max/clear/len/extend with 2-element lists, on SplayTree and through SplaySet; every transition is executed on a fresh replay of the real structure and compared with BTreeMap/BTreeSet; breadth-first to the fixpoint; in every state: consuming iteration under every front/back pattern and every partial consumption followed by drop (with a live-instance balance), reference stability (a reference from a lookup keeps its value and address under every sequence of further lookups up to the depth); non-trivial = states reached by histories of length >= 2",
        &["comparator is consistent (i8 order)", "the long pseudo-random histories are a sampling supplement and not part of the exhaustive claim"],
        true,
        Some(&|c| replay(c, false)),
    )
}
