#!/usr/bin/env python3
"""Maintainer tool (never run by a check): merges eligible candidate entries (see mk_known.py for the
eligibility rule) into known_findings.jsonl, keeping the header, the 'fixed:' lines and existing entries.
usage: merge_known.py cand1.jsonl [...]"""
import json, subprocess, sys
path = "/verif/known_findings.jsonl"
head, known = [], {}
for line in open(path):
    t = line.strip()
    if t.startswith("{"):
        v = json.loads(t)
        known[(v["property"], v["key"])] = v
    else:
        head.append(line.rstrip("\n"))
new = subprocess.run([sys.executable, "/verif/tools/mk_known.py"] + sys.argv[1:], capture_output=True, text=True)
sys.stderr.write(new.stderr)
added = 0
for line in new.stdout.splitlines():
    v = json.loads(line)
    k = (v["property"], v["key"])
    if k not in known:
        known[k] = v
        added += 1
    else:
        have = known[k].setdefault("clauses", [])
        for c in v.get("clauses", []):
            if c not in have:
                have.append(c)
                added += 1
with open(path, "w") as f:
    for h in head:
        f.write(h + "\n")
    for k in sorted(known):
        f.write(json.dumps(known[k]) + "\n")
print(f"added {added}, total known {len(known)}")
