pub mod base;
pub mod c03;
pub mod c06;
pub mod c07;
pub mod c08;
pub mod c09;
pub mod c10;
