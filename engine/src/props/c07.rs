//! C07: the result does not depend on how an operand is written down or wrapped.
use super::base::*;
use crate::complex::*;
use crate::geom::*;
use crate::nf::*;
use crate::oracle::*;
use crate::run::*;
use crate::stats::*;
use crate::variants::*;
use rayon::prelude::*;
use serde_json::{json, Value};

pub struct FamVariants {
    pub v: Vec<Vec<Variant>>, // per operand (M encoding)
}

pub fn fam_variants(fam: &Family, enc: Enc) -> FamVariants {
    FamVariants {
        v: fam.enc(enc).iter().map(single_deviations).collect(),
    }
}

/// deviation bound 1: every single deviation on either side (plus the trait pairings);
/// deviation bound 2: additionally every pair (one deviation on each side)
pub fn pair_case(
    fam: &Family,
    enc: Enc,
    fv: &FamVariants,
    a: u32,
    b: u32,
    bound: u8,
    loc: &mut Local,
) -> Vec<(String, Value)> {
    let (pa, pb) = (&fam.enc(enc)[a as usize], &fam.enc(enc)[b as usize]);
    let (va, vb) = (&fv.v[a as usize], &fv.v[b as usize]);
    let mut out = vec![];
    for op in OPS {
        let base = match call(pa, pb, op).res {
            Ok(r) => r,
            Err(_) => {
                loc.add("panics", 1);
                continue;
            }
        };
        loc.transitions += 1;
        let nb = ring_set(&base, Nf::U);
        let mut check = |x: &MP, y: &MP, pairing: Pairing, desc: String, loc: &mut Local| {
            loc.transitions += 1;
            let r = call_full(x, y, op, Ft::F64, pairing);
            let ok = match &r.res {
                Ok(r) => ring_set(r, Nf::U) == nb,
                Err(_) => false,
            };
            if !ok {
                out.push((
                    format!(
                        "C07 representation-changes-result {} {}",
                        desc.split(' ').next().unwrap_or(""),
                        op_name(op)
                    ),
                    json!({"variant": desc}),
                ));
            }
        };
        for p in [Pairing::PM, Pairing::MP, Pairing::PP] {
            if pairing_applicable(pa, pb, p) {
                check(pa, pb, p, format!("trait-pairing-{:?}", p), loc);
            }
        }
        for v in va {
            check(&v.mp, pb, Pairing::MM, format!("A:{}", v.desc), loc);
        }
        for v in vb {
            check(pa, &v.mp, Pairing::MM, format!("B:{}", v.desc), loc);
        }
        if bound >= 2 {
            for v in va {
                for w in vb {
                    check(
                        &v.mp,
                        &w.mp,
                        Pairing::MM,
                        format!("A:{}|B:{}", v.desc, w.desc),
                        loc,
                    );
                }
            }
        }
    }
    out
}

fn replay_variant(
    fam: &Family,
    enc: Enc,
    a: u32,
    b: u32,
    desc: &str,
    op: geo_booleanop::boolean::Operation,
) -> bool {
    let (pa, pb) = (&fam.enc(enc)[a as usize], &fam.enc(enc)[b as usize]);
    let base = match call(pa, pb, op).res {
        Ok(r) => r,
        Err(_) => return true,
    };
    let nb = ring_set(&base, Nf::U);
    let (mut x, mut y, mut pairing) = (pa.clone(), pb.clone(), Pairing::MM);
    for part in desc.split('|') {
        if let Some(d) = part.strip_prefix("A:") {
            x = apply_named(pa, d).expect("variant");
        } else if let Some(d) = part.strip_prefix("B:") {
            y = apply_named(pb, d).expect("variant");
        } else if let Some(p) = part.strip_prefix("trait-pairing-") {
            pairing = match p {
                "PM" => Pairing::PM,
                "MP" => Pairing::MP,
                _ => Pairing::PP,
            };
        }
    }
    match call_full(&x, &y, op, Ft::F64, pairing).res {
        Ok(r) => ring_set(&r, Nf::U) == nb,
        Err(_) => false,
    }
}

/// float table: region unchanged under every single deviation
fn table_case(
    t: &crate::tables::Table,
    spec: &TableSpec,
    ia: usize,
    ib: usize,
    loc: &mut Local,
) -> Vec<(String, Value)> {
    let (a, b) = (&t.ops[ia], &t.ops[ib]);
    let mut edges = a.edges.clone();
    edges.extend(b.edges.iter().cloned());
    let wit = witnesses(&edges, spec.tol(Ft::F64));
    let mut out = vec![];
    let (va, vb) = (single_deviations(&a.mp), single_deviations(&b.mp));
    for op in OPS {
        let base = match call(&a.mp, &b.mp, op).res {
            Ok(r) => r,
            Err(_) => continue,
        };
        loc.transitions += 1;
        let wv: Vec<bool> = wit.pts.iter().map(|&w| polywise(&base, w) >= 1).collect();
        let mut check = |x: &MP, y: &MP, desc: String, loc: &mut Local| {
            loc.transitions += 1;
            let ok = match call(x, y, op).res {
                Ok(r) => wit
                    .pts
                    .iter()
                    .enumerate()
                    .all(|(k, &w)| (polywise(&r, w) >= 1) == wv[k]),
                Err(_) => false,
            };
            if !ok {
                out.push((
                    format!(
                        "C07 representation-changes-region {} {}",
                        desc.split(' ').next().unwrap_or(""),
                        op_name(op)
                    ),
                    json!({"variant": desc}),
                ));
            }
        };
        for v in &va {
            check(&v.mp, &b.mp, format!("A:{}", v.desc), loc);
        }
        for v in &vb {
            check(&a.mp, &v.mp, format!("B:{}", v.desc), loc);
        }
    }
    out
}

/// near-collinear apex fans of C10 (integer coordinates, exact in f32 and f64): the result must not depend on
/// how the two triangles are written down, in either float type — whatever the result is (in f32 many of these
/// results are the known findings N3; invariance under representation is a separate question)
pub fn fan_case(k: usize, swapped: bool, loc: &mut Local) -> Vec<(String, Value)> {
    let (a, b) = super::c10::fan(k);
    let (a, b) = if swapped { (b, a) } else { (a, b) };
    let (va, vb) = (single_deviations(&a), single_deviations(&b));
    let mut out = vec![];
    for ft in [Ft::F64, Ft::F32] {
        for op in OPS {
            let base = match call_full(&a, &b, op, ft, Pairing::MM).res {
                Ok(r) => r,
                Err(_) => continue,
            };
            loc.transitions += 1;
            let nb = ring_set(&base, Nf::U);
            let mut check = |x: &MP, y: &MP, desc: String, loc: &mut Local| {
                loc.transitions += 1;
                let ok = match call_full(x, y, op, ft, Pairing::MM).res {
                    Ok(r) => ring_set(&r, Nf::U) == nb,
                    Err(_) => false,
                };
                if !ok {
                    out.push((format!("C07 fan: representation-changes-result ({}) {} {}", ft.name(), desc.split(' ').next().unwrap_or(""), op_name(op)), json!({"variant": desc})));
                }
            };
            for v in &va {
                check(&v.mp, &b, format!("A:{}", v.desc), loc);
            }
            for v in &vb {
                check(&a, &v.mp, format!("B:{}", v.desc), loc);
            }
        }
    }
    out
}

/// needle triangles: one operand whose leftmost vertex is a needle thinner than float precision at its scale
/// (the two edges leaving it are both left events of the SAME operand at one point, distinguished only by an
/// exact orientation test), against a small shape above it that does not touch it. All coordinates are integers
/// (exact in the float type used).
pub fn needles() -> Vec<(MP, MP, Ft)> {
    let tri = |p: [(f64, f64); 3]| geo_types::MultiPolygon(vec![poly_from(&p, &[])]);
    let bx = |x0: f64, y0: f64, w: f64| geo_types::MultiPolygon(vec![poly_from(&[(x0, y0), (x0 + w, y0), (x0 + w, y0 + w), (x0, y0 + w)], &[])]);
    let mut v = vec![];
    for (ft, e) in [(Ft::F64, 27), (Ft::F32, 13)] {
        let m = (1u64 << e) as f64;
        for (dx, dy) in [(0.0, 0.0), (5.0, 3.0), (-7.0, 2.0)] {
            for flip in [1.0, -1.0] {
                let n = tri([(dx, dy * flip), (m + dx, (m - 1.0 + dy) * flip), (m + 1.0 + dx, (m + dy) * flip)]);
                // make the ring counter-clockwise for flip = -1 as well (orientation is a variant anyway)
                v.push((n.clone(), bx(10.0 + dx, (100.0 + dy) * flip - if flip < 0.0 { 10.0 } else { 0.0 }, 10.0), ft));
                v.push((n, tri([(20.0 + dx, (200.0 + dy) * flip), (40.0 + dx, (210.0 + dy) * flip), (30.0 + dx, (260.0 + dy) * flip)]), ft));
            }
        }
    }
    v
}

pub fn needle_case(i: usize, swapped: bool, loc: &mut Local) -> Vec<(String, Value)> {
    let (a, b, ft) = needles()[i].clone();
    let (a, b) = if swapped { (b, a) } else { (a, b) };
    let (va, vb) = (single_deviations(&a), single_deviations(&b));
    let mut out = vec![];
    for op in OPS {
        let base = match call_full(&a, &b, op, ft, Pairing::MM).res {
            Ok(r) => r,
            Err(_) => continue,
        };
        loc.transitions += 1;
        let nb = ring_set(&base, Nf::U);
        let mut check = |x: &MP, y: &MP, desc: String, loc: &mut Local| {
            loc.transitions += 1;
            let ok = match call_full(x, y, op, ft, Pairing::MM).res {
                Ok(r) => ring_set(&r, Nf::U) == nb,
                Err(_) => false,
            };
            if !ok {
                out.push((format!("C07 needle: representation-changes-result ({}) {} {}", ft.name(), desc.split(' ').next().unwrap_or(""), op_name(op)), json!({"variant": desc})));
            }
        };
        for v in &va {
            check(&v.mp, &b, format!("A:{}", v.desc), loc);
        }
        for v in &vb {
            check(&a, &v.mp, format!("B:{}", v.desc), loc);
        }
    }
    out
}

pub fn replay(case: &Value, verbose: bool) -> Vec<String> {
    let mut loc = Local::default();
    if case["kind"] == "needle" {
        return needle_case(case["i"].as_u64().unwrap() as usize, case["swapped"].as_bool().unwrap(), &mut loc).into_iter().map(|x| x.0).collect();
    }
    if case["kind"] == "fan" {
        return fan_case(case["k"].as_u64().unwrap() as usize, case["swapped"].as_bool().unwrap(), &mut loc).into_iter().map(|x| x.0).collect();
    }
    if case["kind"] == "table" {
        let spec = TableSpec::from_json(&case["table"]);
        let t = spec.build();
        return table_case(
            &t,
            &spec,
            case["a"].as_u64().unwrap() as usize,
            case["b"].as_u64().unwrap() as usize,
            &mut loc,
        )
        .into_iter()
        .map(|x| x.0)
        .collect();
    }
    let fam = family_cached(case["family"].as_str().unwrap());
    let enc = enc_from(case["enc"].as_str().unwrap_or("M"));
    let (a, b) = (
        case["a"].as_u64().unwrap() as u32,
        case["b"].as_u64().unwrap() as u32,
    );
    if verbose {
        println!(
            "A = {}\nB = {}\nvariant = {}",
            hex(&fam.enc(enc)[a as usize]),
            hex(&fam.enc(enc)[b as usize]),
            case["variant"]
        );
    }
    // replay exactly the recorded variant (covers deviation bound 2 as well)
    let mut cl = vec![];
    if let (Some(desc), Some(clause)) = (case["variant"].as_str(), case["clause"].as_str()) {
        let op = op_from(clause.rsplit(' ').next().unwrap());
        if !replay_variant(&fam, enc, a, b, desc, op) {
            cl.push(clause.to_string());
        }
        return cl;
    }
    let fv = fam_variants(&fam, enc);
    pair_case(&fam, enc, &fv, a, b, 1, &mut loc)
        .into_iter()
        .map(|x| x.0)
        .collect()
}

fn sweep(st: &Stats, name: &str, enc: Enc, bound: u8, subset: Option<u32>) {
    let fam = Family::new(name);
    let fv = fam_variants(&fam, enc);
    let n = fam.cx.noperands();
    let nv: usize = fv.v.iter().map(|v| v.len()).sum();
    st.family(&format!(
        "{name}/{}: deviation bound {bound}, {} ordered pairs{}, {} single deviations over all operands (max {} per operand)",
        enc.name(),
        n as u64 * n as u64,
        subset.map(|s| format!(" with A restricted to every {s}th operand")).unwrap_or_default(),
        nv,
        fv.v.iter().map(|v| v.len()).max().unwrap_or(0)
    ));
    (0..n).into_par_iter().for_each(|a| {
        if let Some(s) = subset {
            if a % s != 0 {
                return;
            }
        }
        let mut loc = Local::default();
        for b in 0..n {
            loc.states += 1;
            if fam.nontrivial(a, b) {
                loc.nontrivial += 1;
            }
            for (c, extra) in pair_case(&fam, enc, &fv, a, b, bound, &mut loc) {
                let mut case = json!({"prop": "C07", "kind": "complex", "family": name, "enc": enc.name(), "a": a, "b": b});
                case["variant"] = extra["variant"].clone();
                let key = format!("{name}:{}:{a}:{b}:{}:{}", enc.name(), extra["variant"].as_str().unwrap_or(""), clause_op(&c));
                loc.violation(&c, key, case);
            }
        }
        st.merge(&loc);
    });
}

pub fn run(tier: &str) -> i32 {
    let st = Stats::new("C07", tier);
    silence_panics();
    let thorough = tier == "thorough";
    if !thorough {
        for name in ["G22", "G32", "G23"] {
            sweep(&st, name, Enc::M, 1, None);
        }
        sweep(&st, "G22", Enc::U, 1, None);
        sweep(&st, "T22", Enc::M, 1, Some(4));
        sweep(&st, "O21", Enc::M, 1, Some(4));
    } else {
        for name in ["G22", "G32", "G23", "T22", "O21", "O12", "G33"] {
            sweep(&st, name, Enc::M, 1, None);
        }
        for name in ["G22", "G32", "T22"] {
            sweep(&st, name, Enc::U, 1, None);
        }
        sweep(&st, "G22", Enc::M, 2, None);
        sweep(&st, "G32", Enc::M, 2, None);
        sweep(&st, "G23", Enc::M, 2, None);
        sweep(&st, "G22", Enc::U, 2, None);
        sweep(&st, "T22", Enc::M, 2, Some(8));
        sweep(&st, "O21", Enc::M, 2, Some(8));
    }
    // float table: regions
    let spec = p_spec(9, st.seed, 1.0, false);
    let t = spec.build();
    let n = t.n_tri;
    st.family(&format!("{}: every single deviation on every ordered triangle pair ({}), regions compared at witnesses", spec.name, n * n));
    (0..n).into_par_iter().for_each(|ia| {
        let mut loc = Local::default();
        for ib in 0..n {
            loc.states += 1;
            if crate::tables::edge_sets_interact(&t.ops[ia].edges, &t.ops[ib].edges) {
                loc.nontrivial += 1;
            }
            for (c, extra) in table_case(&t, &spec, ia, ib, &mut loc) {
                let mut case =
                    json!({"prop": "C07", "kind": "table", "table": spec.json(), "a": ia, "b": ib});
                case["variant"] = extra["variant"].clone();
                loc.violation(
                    &c,
                    format!(
                        "{}:{ia}:{ib}:{}:{}",
                        spec.name,
                        extra["variant"].as_str().unwrap_or(""),
                        clause_op(&c)
                    ),
                    case,
                );
            }
        }
        st.merge(&loc);
    });
    st.family(&format!("{} near-collinear apex fans x 2 operand orders x every single deviation x f64 and f32: identical ring sets", super::c10::N_FANS));
    for k in 0..super::c10::N_FANS {
        for sw in [false, true] {
            let mut loc = Local::default();
            loc.states += 1;
            loc.nontrivial += 1;
            for (c, _) in fan_case(k, sw, &mut loc) {
                loc.violation(&c, format!("fan:{k}:{sw}:{c}"), json!({"prop": "C07", "kind": "fan", "k": k, "swapped": sw}));
            }
            st.merge(&loc);
        }
    }
    let nn = needles().len();
    st.family(&format!("{nn} needle pairs (leftmost vertex a needle thinner than float precision; f64 at 2^27, f32 at 2^13) x 2 operand orders x every single deviation: identical ring sets"));
    for i in 0..nn {
        for sw in [false, true] {
            let mut loc = Local::default();
            loc.states += 1;
            loc.nontrivial += 1;
            for (c, _) in needle_case(i, sw, &mut loc) {
                loc.violation(&c, format!("needle:{i}:{sw}:{c}"), json!({"prop": "C07", "kind": "needle", "i": i, "swapped": sw}));
            }
            st.merge(&loc);
        }
    }
    let f = Family::new("G32");
    let v = single_deviations(&f.m[45]);
    st.sample(json!({"family": "G32", "a_mask": 45, "A": hex(&f.m[45]), "single_deviations_of_A": v.iter().map(|x| x.desc.clone()).collect::<Vec<_>>()}));
    finish(
        &st,
        "state = (ordered operand pair, representation variant within the deviation bound); deviations: every other start vertex of every ring, each ring reversed, all rings reversed, every permutation of parts / holes (<= 3, adjacent transpositions beyond), one repeated vertex at every position, Polygon vs MultiPolygon on either side; transition = one call, its ring set (normal form insensitive to ring start, direction and repeated vertices) compared with the canonical call's; float table: regions at witnesses; non-trivial = operands share a boundary point",
        &["the M<->U re-encoding is not a C07 variant (it changes collinear vertices); C01 covers both encodings at region level"],
        true,
        Some(&|c| replay(c, false)),
    )
}
