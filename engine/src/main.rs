//! verif-engine: bounded-exhaustive exploration of geo-booleanop against reference models.
//! usage: verif-engine <property> <quick|thorough>   |   verif-engine --replay <file>
mod complex;
mod geom;
mod nf;
mod oracle;
mod props;
mod run;
mod sched;
mod stats;
mod tables;
mod variants;
mod watch;

fn main() {
    let args: Vec<String> = std::env::args().collect();
    if args.len() < 3 {
        eprintln!("usage: verif-engine <property> <quick|thorough> | --replay <file>");
        std::process::exit(2);
    }
    if args[1] == "--scenario" && args.len() >= 6 {
        std::process::exit(props::c03::scenario_child(
            &args[2],
            args[3].parse().unwrap(),
            &args[4],
            &args[5],
        ));
    }
    unsafe {
        // allocation-heavy enumeration on 16 threads: keep freed memory in the arenas (less page-fault churn)
        libc::mallopt(libc::M_TRIM_THRESHOLD, 1 << 30);
        libc::mallopt(libc::M_TOP_PAD, 256 << 20);
        libc::mallopt(libc::M_MMAP_THRESHOLD, 1 << 30);
    }
    let threads = std::env::var("VERIF_THREADS")
        .ok()
        .and_then(|s| s.parse().ok())
        .unwrap_or(16);
    rayon::ThreadPoolBuilder::new()
        .num_threads(threads)
        .stack_size(16 << 20)
        .build_global()
        .unwrap();
    if args[1] == "--raw-call" {
        std::process::exit(props::c03::raw_child(&args[2]));
    }
    if args[1] == "--c18-scenario" {
        std::process::exit(props::c18::child(&args[2], args[3].parse().unwrap(), &args[4], &args[5]));
    }
    if args[1] == "--c12-ref" {
        std::process::exit(props::c12::child_ref(args[2].parse().unwrap()));
    }
    if args[1] == "--c12-shard" {
        let upto = args[4].parse::<usize>().ok();
        std::process::exit(props::c12::child_shard(args[2].parse().unwrap(), args[3].parse().unwrap(), upto, &args[5]));
    }
    if args[1] == "--merge-evidence" {
        std::process::exit(props::c03::merge_evidence(&args[2], &args[3], &args[4..]));
    }
    if args[1] == "--dbg-l3" {
        dbg_l3(&args[2]);
    }
    if args[1] == "--dbg-witness" {
        dbg_witness();
        return;
    }
    if args[1] == "--replay" {
        let s = std::fs::read_to_string(&args[2]).expect("cannot read replay file");
        let case: serde_json::Value = serde_json::from_str(&s).expect("replay file is not JSON");
        let clauses = replay_case(&case, true);
        run::cleanup_child_exe();
        println!("clauses failing now: {:?}", clauses);
        let want = case["clause"].as_str().unwrap_or("");
        if clauses.iter().any(|c| c == want) {
            println!(
                "REPRODUCED property={} clause={}",
                case["prop"].as_str().unwrap_or("?"),
                want
            );
            std::process::exit(1);
        }
        println!("NOT-REPRODUCED (the recorded clause does not fail on the current tree)");
        std::process::exit(0);
    }
    let (prop, tier) = (args[1].as_str(), args[2].as_str());
    if tier != "quick" && tier != "thorough" {
        eprintln!("tier must be quick or thorough");
        std::process::exit(2);
    }
    if matches!(prop, "C03" | "C12" | "C18") {
        // these checks re-execute this binary in child processes: take the private copy now, before a
        // concurrent rebuild of the engine can replace the file
        let _ = run::child_exe();
    }
    watch::start(prop);
    let code = match prop {
        "C01" | "C02" | "C04" | "C05" => props::base::run(prop, tier),
        "C03" => props::c03::run(tier),
        "C06" => props::c06::run(tier),
        "C07" => props::c07::run(tier),
        "C08" => props::c08::run(tier),
        "C09" => props::c09::run(tier),
        "C10" => props::c10::run(tier),
        "C11" => props::c11::run(tier),
        "C12" => props::c12::run(tier),
        "C13" => props::c13::run(tier),
        "C17" => props::c17::run(tier),
        "C18" => props::c18::run(tier),
        "C14" => props::c14::run(tier),
        "C15" => props::c15::run(tier),
        "C16" => props::c16::run(tier),
        _ => {
            eprintln!("unknown property {prop}");
            2
        }
    };
    run::cleanup_child_exe();
    std::process::exit(code);
}

pub fn replay_case(case: &serde_json::Value, verbose: bool) -> Vec<String> {
    match case["prop"].as_str().unwrap_or("") {
        "C01" | "C02" | "C04" | "C05" => props::base::replay(case, verbose),
        "C03" => props::c03::replay(case, verbose),
        "C06" => props::c06::replay(case, verbose),
        "C07" => props::c07::replay(case, verbose),
        "C08" => props::c08::replay(case, verbose),
        "C09" => props::c09::replay(case, verbose),
        "C10" => props::c10::replay(case, verbose),
        "C11" => props::c11::replay(case, verbose),
        "C12" => props::c12::replay(case, verbose),
        "C13" => props::c13::replay(case, verbose),
        "C17" => props::c17::replay(case, verbose),
        "C18" => props::c18::replay(case, verbose),
        "C14" => props::c14::replay(case, verbose),
        "C15" => props::c15::replay(case, verbose),
        "C16" => props::c16::replay(case, verbose),
        p => panic!("no replay for property {p}"),
    }
}

#[allow(dead_code)]
pub fn dbg_witness() {
    use crate::props::base::*;
    for kind in ["L2i", "L2s"] {
        let spec = l_spec(kind);
        let t = spec.build();
        let mut shown = 0;
        for a in 0..t.ops.len() {
            for b in 0..t.ops.len() {
                let mut edges = t.ops[a].edges.clone();
                edges.extend(t.ops[b].edges.iter().cloned());
                let w = crate::oracle::witnesses(&edges, spec.tol(crate::run::Ft::F64));
                if w.skipped > 0 && shown < 3 {
                    shown += 1;
                    println!(
                        "{kind} a={a} b={b} skipped {} of {} edges {:?}",
                        w.skipped, w.sides, edges
                    );
                }
            }
        }
    }
}

#[allow(dead_code)]
pub fn dbg_l3(prop: &str) {
    use crate::props::base::*;
    let st = crate::stats::Stats::new(prop, "quick");
    crate::run::silence_panics();
    sweep_table(&st, prop, &l_spec("L3i"), crate::run::Ft::F64, &Want::for_prop(prop), PairSet::All);
    let code = crate::stats::finish(&st, "debug L3i", &[], true, Some(&|c| replay(c, false)));
    std::process::exit(code);
}
